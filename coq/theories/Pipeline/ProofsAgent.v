(* C01, agent side: a second leaves memory+disk only with a logged exit (ack / window / limits / crash). *)
From Coq Require Import ZArith List Bool Arith Lia.
From SH Require Import Common.Wrap Routing.Model Gen.PipelineConsts Pipeline.Model.
Import ListNotations.
Open Scope Z_scope.

Definition items (a : agent) : list item := a_mem a ++ a_hist a ++ a_out a.
Definition ikeys (a : agent) : list key := map it_key (items a).
Definition dkeys (a : agent) : list key := map d_key (a_disk a).

Lemma present_iff a k : present a k <-> In k (ikeys a) \/ In k (dkeys a).
Proof. unfold present, ikeys, dkeys, items. rewrite !map_app, !in_app_iff. tauto. Qed.

(* ids: disk ids are bounded by lastBucketID; a saved item's id names a record of the same second (or none) *)
Definition ik (it : item) : Z * key := (it_id it, it_key it).
Definition pair_ok (nx : Z) (dk : list drec) (p : Z * key) : Prop :=
  fst p <> 0 -> fst p <= nx /\ forall d, In d dk -> d_id d = fst p -> d_key d = snd p.
Definition wfp (nx : Z) (dk : list drec) (ps : list (Z * key)) : Prop :=
  0 <= nx /\ (forall d, In d dk -> 0 <= d_id d <= nx) /\ (forall p, In p ps -> pair_ok nx dk p).
Definition wf (a : agent) : Prop := wfp (a_next a) (a_disk a) (map ik (items a)).

Lemma wfp_incl nx dk ps ps' : wfp nx dk ps -> incl ps' ps -> wfp nx dk ps'.
Proof. intros (H0 & H1 & H2) Hi. split; [exact H0|]. split; [exact H1|]. intros p Hp. apply H2. apply Hi. exact Hp. Qed.

Lemma wfp_sub nx dk dk' ps : wfp nx dk ps -> incl dk' dk -> wfp nx dk' ps.
Proof.
  intros (H0 & H1 & H2) Hi. split; [exact H0|]. split; [intros d Hd; apply H1; apply Hi; exact Hd|].
  intros p Hp Hz. destruct (H2 p Hp Hz) as [Ha Hb]. split; [exact Ha|]. intros d Hd. apply Hb. apply Hi. exact Hd.
Qed.

Lemma wfp_zero nx dk ps k : wfp nx dk ps -> wfp nx dk ((0, k) :: ps).
Proof.
  intros (H0 & H1 & H2). split; [exact H0|]. split; [exact H1|]. intros p [<-|Hp]; [|auto]. intros Hz. simpl in Hz. lia.
Qed.

(* ---- list helpers ---- *)
Lemma remove_item_incl k l : incl (remove_item k l) l.
Proof.
  induction l as [|x r IH]; simpl; [intros y H; exact H|].
  destruct (item_eqk k x); intros y H; simpl in *; [right; exact H|].
  destruct H as [H|H]; [left; exact H|right; apply IH; exact H].
Qed.

Lemma find_item_in k l it : find_item k l = Some it -> In it l /\ it_key it = k.
Proof.
  unfold find_item. intros H. apply find_some in H. destruct H as [H1 H2].
  split; [exact H1|]. unfold item_eqk in H2. apply Nat.eqb_eq in H2. exact H2.
Qed.

Lemma remove_item_keeps k l it x : find_item k l = Some it -> In x l -> x = it \/ In x (remove_item k l).
Proof.
  unfold find_item. induction l as [|y r IH]; simpl; [tauto|].
  destruct (item_eqk k y) eqn:E; intros Hf Hin.
  - inversion Hf; subst. destruct Hin as [->|Hin]; [left; reflexivity|right; exact Hin].
  - destruct Hin as [->|Hin]; [right; left; reflexivity|].
    destruct (IH Hf Hin) as [->|H]; [left; reflexivity|right; right; exact H].
Qed.

Lemma replace_nth_in {A} n (l : list A) y x : In x (replace_nth n l y) -> x = y \/ In x l.
Proof.
  revert n; induction l as [|z r IH]; intros n; [destruct n; simpl; tauto|].
  destruct n; simpl; intros [H|H]; auto.
  destruct (IH _ H); auto.
Qed.

Lemma replace_nth_keeps {A} n (l : list A) y z x : nth_error l n = Some z -> In x l -> x = z \/ In x (replace_nth n l y).
Proof.
  revert n; induction l as [|w r IH]; intros n; [destruct n; simpl; tauto|].
  destruct n; simpl; intros Hn [H|H].
  - inversion Hn; subst; auto.
  - right; right; exact H.
  - subst; right; left; reflexivity.
  - destruct (IH _ Hn H); auto.
Qed.

Lemma replace_nth_has {A} n (l : list A) y : (n < length l)%nat -> In y (replace_nth n l y).
Proof.
  revert n; induction l as [|w r IH]; intros n Hlt; simpl in *; [lia|].
  destruct n; simpl; [left; reflexivity|right; apply IH; lia].
Qed.

Lemma swap_remove_incl l pos : incl (swap_remove l pos) l.
Proof.
  unfold swap_remove. destruct (rev l) as [|lastit rinit] eqn:E; [intros x []|].
  assert (Hl : l = rev rinit ++ [lastit]).
  { rewrite <- (rev_involutive l), E. reflexivity. }
  intros x Hx. rewrite Hl. apply in_or_app.
  destruct (Nat.eqb pos (length (rev rinit))); [left; exact Hx|].
  apply replace_nth_in in Hx. destruct Hx as [->|Hx]; [right; left; reflexivity|left; exact Hx].
Qed.

Lemma swap_remove_keeps l pos it x : nth_error l pos = Some it -> In x l -> x = it \/ In x (swap_remove l pos).
Proof.
  unfold swap_remove. destruct (rev l) as [|lastit rinit] eqn:E.
  - assert (l = []) by (rewrite <- (rev_involutive l), E; reflexivity). subst. simpl. tauto.
  - assert (Hl : l = rev rinit ++ [lastit]) by (rewrite <- (rev_involutive l), E; reflexivity).
    set (init := rev rinit) in *. rewrite Hl. intros Hn Hin.
    destruct (Nat.eqb pos (length init)) eqn:Ep.
    + apply Nat.eqb_eq in Ep. subst pos. rewrite nth_error_app2 in Hn by lia.
      rewrite Nat.sub_diag in Hn. simpl in Hn. inversion Hn; subst.
      apply in_app_or in Hin. destruct Hin as [H|[H|[]]]; auto.
    + apply Nat.eqb_neq in Ep.
      destruct (Nat.lt_ge_cases pos (length init)) as [Hlt|Hge].
      * rewrite nth_error_app1 in Hn by exact Hlt.
        apply in_app_or in Hin. destruct Hin as [H|[H|[]]].
        -- eapply replace_nth_keeps; eauto.
        -- subst. right. apply replace_nth_has. exact Hlt.
      * rewrite nth_error_app2 in Hn by exact Hge.
        destruct (pos - length init)%nat eqn:Ed; [lia|]. simpl in Hn. destruct n; discriminate.
Qed.

(* ---- helpers of the step function ---- *)
Lemma disk_put_spec a it ok a' it' ps :
  disk_put a it ok = (a', it') -> wfp (a_next a) (a_disk a) (ik it :: ps) ->
  a_mem a' = a_mem a /\ a_hist a' = a_hist a /\ a_out a' = a_out a /\ a_disk_on a' = a_disk_on a /\
  it_key it' = it_key it /\ incl (dkeys a) (dkeys a') /\ wfp (a_next a') (a_disk a') (ik it' :: ps).
Proof.
  unfold disk_put. intros H W.
  destruct (negb (a_disk_on a)); [inversion H; subst; clear H; do 5 (split; [reflexivity|]); split; [apply incl_refl|exact W]|].
  destruct (negb (it_id it =? 0)) eqn:E0; [inversion H; subst; clear H; do 5 (split; [reflexivity|]); split; [apply incl_refl|exact W]|].
  destruct (negb ok); [inversion H; subst; clear H; do 5 (split; [reflexivity|]); split; [apply incl_refl|exact W]|].
  inversion H; subst; clear H. simpl.
  destruct W as (W0 & W1 & W2).
  split; [reflexivity|]. split; [reflexivity|]. split; [reflexivity|]. split; [reflexivity|]. split; [reflexivity|].
  split.
  - unfold dkeys; simpl. rewrite map_app. apply incl_appl, incl_refl.
  - split; [lia|]. split.
    + intros d Hd. apply in_app_or in Hd. destruct Hd as [Hd|[<-|[]]].
      * specialize (W1 _ Hd). lia.
      * simpl. lia.
    + intros p [<-|Hp].
      * unfold pair_ok, ik; simpl. intros _. split; [lia|]. intros d Hd Hid.
        apply in_app_or in Hd. destruct Hd as [Hd|[<-|[]]]; [|reflexivity].
        specialize (W1 _ Hd). lia.
      * intros Hz. destruct (W2 p (or_intror Hp) Hz) as [Ha Hb]. split; [lia|].
        intros d Hd Hid. apply in_app_or in Hd. destruct Hd as [Hd|[<-|[]]]; [auto|]. simpl in Hid. lia.
Qed.

Lemma disk_erase_spec a id :
  a_mem (disk_erase a id) = a_mem a /\ a_hist (disk_erase a id) = a_hist a /\ a_out (disk_erase a id) = a_out a /\
  a_next (disk_erase a id) = a_next a /\ a_disk_on (disk_erase a id) = a_disk_on a /\
  incl (a_disk (disk_erase a id)) (a_disk a) /\
  (forall d, In d (a_disk a) -> In d (a_disk (disk_erase a id)) \/ (d_id d = id /\ id <> 0)).
Proof.
  unfold disk_erase. destruct (negb (a_disk_on a)); simpl.
  - repeat split; auto. apply incl_refl.
  - repeat split; auto.
    + intros d Hd. apply filter_In in Hd. tauto.
    + intros d Hd. destruct ((d_id d =? id) && negb (id =? 0)) eqn:E.
      * right. apply andb_true_iff in E. destruct E as [E1 E2]. apply Z.eqb_eq in E1.
        apply negb_true_iff, Z.eqb_neq in E2. tauto.
      * left. apply filter_In. rewrite E. tauto.
Qed.

Lemma append_hist_spec a it over a' ev :
  append_hist a it over = (a', ev) ->
  a_mem a' = a_mem a /\ a_out a' = a_out a /\ a_disk a' = a_disk a /\ a_next a' = a_next a /\ a_disk_on a' = a_disk_on a /\
  incl (map ik (a_hist a')) (ik it :: map ik (a_hist a)) /\ incl (a_hist a) (a_hist a') /\
  (In (it_key it) (map it_key (a_hist a')) \/ In (EvDrop (it_key it) XMemLimit) ev) /\
  (forall k, ~ In (EvAccept k) ev).
Proof.
  unfold append_hist. intros H.
  destruct over; [destruct (it_id it =? 0)|]; inversion H; subst; clear H; simpl; do 5 (split; [reflexivity|]).
  - split; [apply incl_tl, incl_refl|]. split; [apply incl_refl|]. split; [right; left; reflexivity|].
    intros k [Hk|[]]. discriminate.
  - split.
    { rewrite map_app. simpl. intros p Hp. apply in_app_or in Hp. destruct Hp as [Hp|[<-|[]]]; [right; exact Hp|left; reflexivity]. }
    split; [apply incl_appl, incl_refl|]. split; [|intros k []].
    left. rewrite map_app. apply in_or_app. right. left. reflexivity.
  - split.
    { rewrite map_app. simpl. intros p Hp. apply in_app_or in Hp. destruct Hp as [Hp|[<-|[]]]; [right; exact Hp|left; reflexivity]. }
    split; [apply incl_appl, incl_refl|]. split; [|intros k []].
    left. rewrite map_app. apply in_or_app. right. left. reflexivity.
Qed.

Lemma read_tail_spec d id r d' :
  read_tail d id = Some (r, d') ->
  map d_key d' = map d_key d /\ In r d /\
  (forall x, In x d' -> In x d \/ (d_id x = id /\ d_key x = d_key r)).
Proof.
  revert d'. induction d as [|y rest IH]; simpl; intros d' H; [discriminate|].
  destruct (d_id y =? 0).
  - inversion H; subst; clear H. simpl. split; [reflexivity|]. split; [left; reflexivity|].
    intros x [<-|Hx]; [right; simpl; auto|left; right; exact Hx].
  - destruct (read_tail rest id) as [[x0 rest']|] eqn:E; [|discriminate].
    inversion H; subst; clear H. destruct (IH _ eq_refl) as (I1 & I2 & I3). simpl. split; [|split].
    + f_equal. exact I1.
    + right. exact I2.
    + intros x [<-|Hx]; [left; left; reflexivity|]. destruct (I3 _ Hx); [left; right; assumption|right; assumption].
Qed.

Lemma read_historic_second_spec a :
  wf a ->
  wf (read_historic_second a) /\ incl (ikeys a) (ikeys (read_historic_second a)) /\
  dkeys (read_historic_second a) = dkeys a.
Proof.
  intros W. unfold read_historic_second.
  destruct (negb (a_disk_on a)); [split; [exact W|split; [apply incl_refl|reflexivity]]|].
  destruct (read_tail (a_disk a) (a_next a + 1)) as [[r d']|] eqn:E; [|split; [exact W|split; [apply incl_refl|reflexivity]]].
  destruct (read_tail_spec _ _ _ _ E) as (R1 & R2 & R3).
  destruct W as (W0 & W1 & W2).
  split; [|split].
  - unfold wf, items; simpl. split; [lia|]. split.
    + intros x Hx. destruct (R3 _ Hx) as [Hin|[Hid _]]; [specialize (W1 _ Hin); lia|lia].
    + intros p Hp. rewrite !map_app in Hp. simpl in Hp.
      assert (Hp' : In p (map ik (items a)) \/ p = (a_next a + 1, d_key r)).
      { unfold items. rewrite !map_app. rewrite !in_app_iff in *. simpl in Hp. unfold ik at 3 in Hp. simpl in Hp. intuition (subst; auto). }
      destruct Hp' as [Hp'|Hp']; [|subst p].
      * intros Hz. destruct (W2 _ Hp' Hz) as [Ha Hb]. split; [lia|].
        intros x Hx Hid. destruct (R3 _ Hx) as [Hin|[Hid' _]]; [auto|lia].
      * unfold pair_ok; simpl. intros _. split; [lia|]. intros x Hx Hid.
        destruct (R3 _ Hx) as [Hin|[_ Hk]]; [specialize (W1 _ Hin); lia|exact Hk].
  - unfold ikeys, items; simpl. rewrite !map_app. intros k Hk. rewrite !in_app_iff in *. tauto.
  - unfold dkeys; simpl. exact R1.
Qed.

Lemma read_n_spec n a : wf a -> wf (read_n n a) /\ incl (ikeys a) (ikeys (read_n n a)) /\ dkeys (read_n n a) = dkeys a.
Proof.
  revert a; induction n as [|n IH]; intros a W; simpl; [split; [exact W|split; [apply incl_refl|reflexivity]]|].
  destruct (read_historic_second_spec a W) as (W1 & I1 & D1).
  destruct (IH _ W1) as (W2 & I2 & D2). split; [exact W2|]. split; [eapply incl_tran; eauto|congruence].
Qed.

(* ---- the step invariant ---- *)
Definition exits (ev : list aev) (k : key) : Prop := In (EvAck k) ev \/ exists r, In (EvDrop k r) ev.

Lemma in_items_mem a x : In x (a_mem a) -> In x (items a).
Proof. unfold items. intros; apply in_or_app; auto. Qed.
Lemma in_items_hist a x : In x (a_hist a) -> In x (items a).
Proof. unfold items. intros; apply in_or_app; right; apply in_or_app; auto. Qed.
Lemma in_items_out a x : In x (a_out a) -> In x (items a).
Proof. unfold items. intros; apply in_or_app; right; apply in_or_app; auto. Qed.

Lemma items_cases a x : In x (items a) -> In x (a_mem a) \/ In x (a_hist a) \/ In x (a_out a).
Proof. unfold items. rewrite !in_app_iff. tauto. Qed.

(* erase of a saved item's id only removes records of that item's second *)
Lemma erase_only_own a it ps k :
  wfp (a_next a) (a_disk a) (ik it :: ps) -> In k (dkeys a) ->
  In k (dkeys (disk_erase a (it_id it))) \/ k = it_key it.
Proof.
  intros (W0 & W1 & W2) Hk. unfold dkeys in *. apply in_map_iff in Hk. destruct Hk as (d & <- & Hd).
  destruct (disk_erase_spec a (it_id it)) as (_ & _ & _ & _ & _ & _ & E).
  destruct (E d Hd) as [Hin|[Hid Hnz]].
  - left. apply in_map. exact Hin.
  - right. destruct (W2 (ik it) (or_introl eq_refl)) as [_ Hb]; [exact Hnz|]. apply Hb; assumption.
Qed.

Lemma wf_erase a id ps : wfp (a_next a) (a_disk a) ps -> wfp (a_next (disk_erase a id)) (a_disk (disk_erase a id)) ps.
Proof.
  intros W. destruct (disk_erase_spec a id) as (_ & _ & _ & En & _ & Ei & _). rewrite En. eapply wfp_sub; eauto.
Qed.

(* put + append of a floating item (shared by sendToSenders, goSendRecent's failure path) *)
Lemma put_append a it ok over a1 it1 a2 ev :
  disk_put a it ok = (a1, it1) -> append_hist a1 it1 over = (a2, ev) ->
  wfp (a_next a) (a_disk a) (ik it :: map ik (items a)) ->
  wf a2 /\ incl (ikeys a) (ikeys a2) /\ incl (dkeys a) (dkeys a2) /\
  (In (it_key it) (ikeys a2) \/ In (EvDrop (it_key it) XMemLimit) ev) /\ (forall k, ~ In (EvAccept k) ev).
Proof.
  intros Hp Ha W.
  destruct (disk_put_spec _ _ _ _ _ _ Hp W) as (M1 & H1 & O1 & _ & K1 & D1 & W1).
  destruct (append_hist_spec _ _ _ _ _ Ha) as (M2 & O2 & D2 & N2 & _ & I2 & I2' & K2 & A2).
  split; [|split; [|split; [|split]]]; auto.
  - unfold wf. rewrite N2, D2. eapply wfp_incl; [exact W1|].
    unfold items. rewrite M2, O2, M1, O1. rewrite !map_app. intros p Hp'.
    rewrite !in_app_iff in Hp'. destruct Hp' as [Hp'|[Hp'|Hp']].
    + right. rewrite !in_app_iff. tauto.
    + destruct (I2 _ Hp') as [<-|Hq]; [left; reflexivity|]. right. rewrite H1 in Hq. rewrite !in_app_iff. tauto.
    + right. rewrite !in_app_iff. tauto.
  - unfold ikeys, items. rewrite M2, O2, M1, O1, !map_app. intros k Hk. rewrite !in_app_iff in *.
    destruct Hk as [Hk|[Hk|Hk]]; auto. right; left. rewrite <- H1 in Hk.
    apply in_map_iff in Hk. destruct Hk as (x & <- & Hx). apply in_map. apply I2'. exact Hx.
  - unfold dkeys in *. rewrite D2. exact D1.
  - rewrite <- K1. destruct K2 as [K2|K2]; [left|right; exact K2].
    unfold ikeys, items. rewrite !map_app, !in_app_iff. tauto.
Qed.

Lemma step_inv a o a' ev ob :
  wf a -> astep a o = (a', ev, ob) ->
  wf a' /\ forall k, (In k (ikeys a) \/ In k (dkeys a) \/ In (EvAccept k) ev) ->
                     In k (ikeys a') \/ In k (dkeys a') \/ exits ev k.
Proof.
  intros W H. destruct o as [k t dok over|k t save dok|k now ans dok over|now|k now hw ans|k now hw od over|nread]; simpl in H.
  - (* OAcceptFull *)
    set (it := {| it_key := k; it_time := t; it_id := 0; it_data := true |}) in *.
    destruct (disk_put a it dok) as [a1 it1] eqn:Ep. destruct (append_hist a1 it1 over) as [a2 ev2] eqn:Ea.
    inversion H; subst; clear H.
    destruct (put_append _ _ _ _ _ _ _ _ Ep Ea (wfp_zero _ _ _ k W)) as (W2 & I2 & D2 & K2 & A2).
    split; [exact W2|]. intros x [Hx|[Hx|Hx]]; auto.
    destruct Hx as [Hx|Hx]; [inversion Hx; subst|exfalso; eapply A2; eauto].
    simpl in K2. destruct K2 as [K2|K2]; [auto|]. right; right; right. exists XMemLimit. right. exact K2.
  - (* ORecentBegin *)
    set (it := {| it_key := k; it_time := t; it_id := 0; it_data := true |}) in *.
    assert (exists a1 it1, (if save then disk_put a it dok else (a, it)) = (a1, it1) /\
              a_mem a1 = a_mem a /\ a_hist a1 = a_hist a /\ a_out a1 = a_out a /\ it_key it1 = k /\ incl (dkeys a) (dkeys a1) /\
              wfp (a_next a1) (a_disk a1) (ik it1 :: map ik (items a))) as (a1 & it1 & E1 & M1 & H1 & O1 & K1 & D1 & W1).
    { destruct save.
      - destruct (disk_put a it dok) as [a1 it1] eqn:Ep. exists a1, it1.
        destruct (disk_put_spec _ _ _ _ _ _ Ep (wfp_zero _ _ _ k W)) as (M1 & H1 & O1 & _ & K1 & D1 & W1).
        split; [reflexivity|]. split; [exact M1|]. split; [exact H1|]. split; [exact O1|]. split; [exact K1|]. split; [exact D1|exact W1].
      - exists a, it. do 5 (split; [reflexivity|]). split; [apply incl_refl|apply (wfp_zero _ _ _ k W)]. }
    rewrite E1 in H. inversion H; subst; clear H. split.
    + unfold wf, items; simpl. eapply wfp_incl; [exact W1|]. rewrite M1, H1, O1. unfold items. rewrite !map_app. simpl.
      intros p Hp. rewrite !in_app_iff in Hp. simpl in Hp. simpl. rewrite !in_app_iff. tauto.
    + intros x [Hx|[Hx|Hx]].
      * left. unfold ikeys, items in *; simpl. rewrite M1, H1, O1. rewrite !map_app in *. rewrite !in_app_iff in *. tauto.
      * right; left. unfold dkeys; simpl. apply D1. exact Hx.
      * destruct Hx as [Hx|[]]. inversion Hx; subst. left. unfold ikeys, items; simpl. rewrite !map_app, !in_app_iff. simpl. tauto.
  - (* ORecentFinish *)
    destruct (find_item k (a_mem a)) as [it|] eqn:Ef.
    2:{ inversion H; subst. split; [exact W|]. intros x [Hx|[Hx|[]]]; auto. }
    destruct (find_item_in _ _ _ Ef) as [Hin Hkey].
    set (a0 := set_mem a (remove_item k (a_mem a))) in *.
    assert (Wfl : wfp (a_next a0) (a_disk a0) (ik it :: map ik (items a0))).
    { unfold a0; simpl. eapply wfp_incl; [exact W|]. intros p [<-|Hp].
      - apply in_map. apply in_items_mem. exact Hin.
      - unfold items in *; simpl in Hp. rewrite !map_app, !in_app_iff in *. destruct Hp as [Hp|Hp]; [left|right; exact Hp].
        apply in_map_iff in Hp. destruct Hp as (y & <- & Hy). apply in_map. apply remove_item_incl in Hy. exact Hy. }
    assert (Keep : forall x, In x (ikeys a) -> x = k \/ In x (ikeys a0)).
    { intros x Hx. unfold ikeys in Hx. apply in_map_iff in Hx. destruct Hx as (y & <- & Hy).
      apply items_cases in Hy. destruct Hy as [Hy|Hy].
      - destruct (remove_item_keeps _ _ _ _ Ef Hy) as [->|Hy']; [left; exact Hkey|].
        right. unfold ikeys. apply in_map. unfold items, a0; simpl. apply in_or_app. left. exact Hy'.
      - right. unfold ikeys. apply in_map. unfold items, a0; simpl. apply in_or_app. right. unfold items in *. rewrite in_app_iff. exact Hy. }
    destruct (negb (too_old_for_recent now (it_time it)) && match ans with ADiscard => true | _ => false end) eqn:Eres.
    + inversion H; subst; clear H.
      destruct (disk_erase_spec a0 (it_id it)) as (Em & Eh & Eo & En & _ & Ei & _).
      split.
      * unfold wf, items. rewrite Em, Eh, Eo. apply wf_erase. eapply wfp_incl; [exact Wfl|]. apply incl_tl, incl_refl.
      * intros x [Hx|[Hx|Hx]].
        -- destruct (Keep _ Hx) as [->|Hx'].
           ++ right; right; left. apply in_or_app. right. left. reflexivity.
           ++ left. unfold ikeys, items in *. rewrite Em, Eh, Eo. exact Hx'.
        -- destruct (erase_only_own a0 it _ x Wfl Hx) as [Hd| ->]; [right; left; exact Hd|].
           right; right; left. apply in_or_app. right. left. try rewrite Hkey. reflexivity.
        -- exfalso. apply in_app_or in Hx. destruct Hx as [Hx|[Hx|[]]]; [|discriminate].
           destruct (negb (too_old_for_recent now (it_time it)) && match ans with ANoReplica => false | _ => true end); simpl in Hx; [destruct Hx as [Hx|[]]; discriminate|destruct Hx].
    + destruct (disk_put a0 it dok) as [a1 it1] eqn:Ep. destruct (append_hist a1 it1 over) as [a2 ev2] eqn:Ea.
      inversion H; subst; clear H.
      destruct (put_append _ _ _ _ _ _ _ _ Ep Ea Wfl) as (W2 & I2 & D2 & K2 & A2).
      split; [exact W2|]. intros x [Hx|[Hx|Hx]].
      * destruct (Keep _ Hx) as [->|Hx']; [|left; apply I2; exact Hx'].
        try rewrite Hkey in K2. destruct K2 as [K2|K2]; [left; exact K2|].
        right; right; right. exists XMemLimit. apply in_or_app. right. exact K2.
      * right; left. apply D2. exact Hx.
      * exfalso. apply in_app_or in Hx. destruct Hx as [Hx|Hx]; [|eapply A2; eauto].
        destruct (negb (too_old_for_recent now (it_time it)) && match ans with ANoReplica => false | _ => true end); simpl in Hx; [destruct Hx as [Hx|[]]; discriminate|destruct Hx].
  - (* OPop *)
    unfold pop_oldest in H. destruct (a_hist a) as [|it0 rest] eqn:Eh.
    { inversion H; subst. split; [exact W|]. intros x [Hx|[Hx|[]]]; auto. }
    rewrite <- Eh in H.
    destruct (nth_error (a_hist a) (oldest_pos (a_hist a) 0 0 (it_time it0))) as [it|] eqn:En.
    2:{ inversion H; subst. split; [exact W|]. intros x [Hx|[Hx|[]]]; auto. }
    destruct ((now <=? it_time it) && (it_time it <=? u32 (now + max_future_seconds_on_disk))).
    { inversion H; subst. split; [exact W|]. intros x [Hx|[Hx|[]]]; auto. }
    set (pos := oldest_pos (a_hist a) 0 0 (it_time it0)) in *.
    set (a1 := set_hist a (swap_remove (a_hist a) pos)) in *.
    assert (W1 : wf a1).
    { unfold wf, a1; simpl. eapply wfp_incl; [exact W|]. unfold items; simpl. rewrite !map_app. intros p Hp.
      rewrite !in_app_iff in *. destruct Hp as [Hp|[Hp|Hp]]; auto. right; left.
      apply in_map_iff in Hp. destruct Hp as (y & <- & Hy). apply in_map. eapply swap_remove_incl; eauto. }
    destruct (read_historic_second_spec a1 W1) as (W2 & I2 & D2).
    set (a2 := read_historic_second a1) in *.
    inversion H; subst; clear H.
    assert (Hit : In it (a_hist a)) by (eapply nth_error_In; eauto).
    split.
    + unfold wf; simpl. destruct W2 as (V0 & V1 & V2). split; [exact V0|]. split; [exact V1|].
      intros p Hp. unfold items in Hp; simpl in Hp. rewrite !map_app, !in_app_iff in Hp. simpl in Hp.
      assert (Hc : In p (map ik (items a2)) \/ p = ik it) by (unfold items; rewrite !map_app, !in_app_iff; intuition (subst; auto)).
      destruct Hc as [Hc| ->]; [auto|].
      (* the popped item: its id was fine in a; reading the tail only gives out a fresh id *)
      intros Hz. destruct W as (U0 & U1 & U2).
      destruct (U2 (ik it) (in_map ik _ _ (in_items_hist _ _ Hit)) Hz) as [Ua Ub].
      unfold ik in Ua, Ub, Hz; simpl in Ua, Ub, Hz.
      unfold a2, read_historic_second. unfold a2, read_historic_second in V0, V1.
      destruct (negb (a_disk_on a1)); [split; [exact Ua|exact Ub]|].
      destruct (read_tail (a_disk a1) (a_next a1 + 1)) as [[r d']|] eqn:Er; [|split; [exact Ua|exact Ub]].
      simpl. split; [unfold a1; simpl; lia|]. intros d Hd Hid.
      destruct (read_tail_spec _ _ _ _ Er) as (_ & _ & R3). destruct (R3 _ Hd) as [Hin|[Hid' _]]; [apply Ub; auto|].
      unfold a1 in Hid'; simpl in Hid'. simpl in Ua. lia.
    + intros x [Hx|[Hx|[]]].
      * left. unfold ikeys in Hx. apply in_map_iff in Hx. destruct Hx as (y & <- & Hy).
        apply items_cases in Hy.
        assert (Hc : In y (items a1) \/ y = it).
        { destruct Hy as [Hy|[Hy|Hy]].
          - left. unfold items, a1; simpl. apply in_or_app; auto.
          - destruct (swap_remove_keeps _ _ _ _ En Hy) as [->|Hy']; [right; reflexivity|].
            left. unfold items, a1; simpl. apply in_or_app; right; apply in_or_app; left. exact Hy'.
          - left. unfold items, a1; simpl. apply in_or_app; right; apply in_or_app; right. exact Hy. }
        destruct Hc as [Hc| ->].
        -- assert (In (it_key y) (ikeys a2)) by (apply I2; unfold ikeys; apply in_map; exact Hc).
           unfold ikeys, items in *; simpl. rewrite !map_app, !in_app_iff in *. tauto.
        -- unfold ikeys, items; simpl. rewrite !map_app, !in_app_iff. simpl. tauto.
      * right; left. unfold dkeys in *; simpl. fold a2. unfold dkeys in D2. rewrite D2. exact Hx.
  - (* OHistIter *)
    destruct (find_item k (a_out a)) as [it|] eqn:Ef.
    2:{ inversion H; subst. split; [exact W|]. intros x [Hx|[Hx|[]]]; auto. }
    destruct (find_item_in _ _ _ Ef) as [Hin Hkey].
    set (a0 := set_out a (remove_item k (a_out a))) in *.
    assert (Wfl : wfp (a_next a0) (a_disk a0) (ik it :: map ik (items a0))).
    { unfold a0; simpl. eapply wfp_incl; [exact W|]. intros p [<-|Hp].
      - apply in_map. apply in_items_out. exact Hin.
      - unfold items in *; simpl in Hp. rewrite !map_app, !in_app_iff in *. destruct Hp as [Hp|[Hp|Hp]]; auto. right; right.
        apply in_map_iff in Hp. destruct Hp as (y & <- & Hy). apply in_map. apply remove_item_incl in Hy. exact Hy. }
    assert (Keep : forall x, In x (ikeys a) -> x = k \/ In x (ikeys a0)).
    { intros x Hx. unfold ikeys in Hx. apply in_map_iff in Hx. destruct Hx as (y & <- & Hy).
      apply items_cases in Hy. destruct Hy as [Hy|[Hy|Hy]].
      - right. unfold ikeys. apply in_map. unfold items, a0; simpl. apply in_or_app; auto.
      - right. unfold ikeys. apply in_map. unfold items, a0; simpl. apply in_or_app; right; apply in_or_app; auto.
      - destruct (remove_item_keeps _ _ _ _ Ef Hy) as [->|Hy']; [left; exact Hkey|].
        right. unfold ikeys. apply in_map. unfold items, a0; simpl. apply in_or_app; right; apply in_or_app; auto. }
    assert (Erase : forall evs, (In (EvAck k) evs \/ exists r, In (EvDrop k r) evs) -> (forall q, ~ In (EvAccept q) evs) ->
              wf (disk_erase a0 (it_id it)) /\ forall x, (In x (ikeys a) \/ In x (dkeys a) \/ In (EvAccept x) evs) ->
                In x (ikeys (disk_erase a0 (it_id it))) \/ In x (dkeys (disk_erase a0 (it_id it))) \/ exits evs x).
    { intros evs Hex Hna. destruct (disk_erase_spec a0 (it_id it)) as (Em & Eh & Eo & En & _ & Ei & _). split.
      - unfold wf, items. rewrite Em, Eh, Eo. apply wf_erase. eapply wfp_incl; [exact Wfl|]. apply incl_tl, incl_refl.
      - intros x [Hx|[Hx|Hx]].
        + destruct (Keep _ Hx) as [->|Hx']; [right; right; exact Hex|].
          left. unfold ikeys, items in *. rewrite Em, Eh, Eo. exact Hx'.
        + destruct (erase_only_own a0 it _ x Wfl Hx) as [Hd| ->]; [right; left; exact Hd|].
          try rewrite Hkey. right; right; exact Hex.
        + exfalso. eapply Hna; eauto. }
    destruct (out_of_window now (it_time it) hw).
    { inversion H; subst; clear H. apply Erase.
      - right. exists XWindow. left. reflexivity.
      - intros q [Hq|[]]; discriminate. }
    destruct (negb (it_data it) && negb (a_disk_on a)).
    { inversion H; subst; clear H. split.
      - eapply wfp_incl; [exact Wfl|]. apply incl_tl, incl_refl.
      - intros x [Hx|[Hx|Hx]].
        + destruct (Keep _ Hx) as [->|Hx']; [|left; exact Hx'].
          right; right; right. exists XNoData. left. reflexivity.
        + right; left. exact Hx.
        + destruct Hx as [Hx|[]]; discriminate. }
    destruct ans.
    + inversion H; subst; clear H. apply Erase.
      * left. right. left. reflexivity.
      * intros q [Hq|[Hq|[]]]; discriminate.
    + inversion H; subst. split; [exact W|]. intros x [Hx|[Hx|[Hx|[]]]]; auto; discriminate.
    + inversion H; subst. split; [exact W|]. intros x [Hx|[Hx|[Hx|[]]]]; auto; discriminate.
    + inversion H; subst. split; [exact W|]. intros x [Hx|[Hx|[]]]; auto.
  - (* OEraseIter *)
    destruct (find_item k (a_out a)) as [it|] eqn:Ef.
    2:{ inversion H; subst. split; [exact W|]. intros x [Hx|[Hx|[]]]; auto. }
    destruct (find_item_in _ _ _ Ef) as [Hin Hkey].
    set (a0 := set_out a (remove_item k (a_out a))) in *.
    assert (Wfl : wfp (a_next a0) (a_disk a0) (ik it :: map ik (items a0))).
    { unfold a0; simpl. eapply wfp_incl; [exact W|]. intros p [<-|Hp].
      - apply in_map. apply in_items_out. exact Hin.
      - unfold items in *; simpl in Hp. rewrite !map_app, !in_app_iff in *. destruct Hp as [Hp|[Hp|Hp]]; auto. right; right.
        apply in_map_iff in Hp. destruct Hp as (y & <- & Hy). apply in_map. apply remove_item_incl in Hy. exact Hy. }
    assert (Keep : forall x, In x (ikeys a) -> x = k \/ In x (ikeys a0)).
    { intros x Hx. unfold ikeys in Hx. apply in_map_iff in Hx. destruct Hx as (y & <- & Hy).
      apply items_cases in Hy. destruct Hy as [Hy|[Hy|Hy]].
      - right. unfold ikeys. apply in_map. unfold items, a0; simpl. apply in_or_app; auto.
      - right. unfold ikeys. apply in_map. unfold items, a0; simpl. apply in_or_app; right; apply in_or_app; auto.
      - destruct (remove_item_keeps _ _ _ _ Ef Hy) as [->|Hy']; [left; exact Hkey|].
        right. unfold ikeys. apply in_map. unfold items, a0; simpl. apply in_or_app; right; apply in_or_app; auto. }
    assert (Erase : forall r0, wf (disk_erase a0 (it_id it)) /\ forall x, (In x (ikeys a) \/ In x (dkeys a) \/ In (EvAccept x) [EvDrop k r0]) ->
                In x (ikeys (disk_erase a0 (it_id it))) \/ In x (dkeys (disk_erase a0 (it_id it))) \/ exits [EvDrop k r0] x).
    { intros r0. destruct (disk_erase_spec a0 (it_id it)) as (Em & Eh & Eo & En & _ & Ei & _). split.
      - unfold wf, items. rewrite Em, Eh, Eo. apply wf_erase. eapply wfp_incl; [exact Wfl|]. apply incl_tl, incl_refl.
      - intros x [Hx|[Hx|Hx]].
        + destruct (Keep _ Hx) as [->|Hx']; [right; right; right; exists r0; left; reflexivity|].
          left. unfold ikeys, items in *. rewrite Em, Eh, Eo. exact Hx'.
        + destruct (erase_only_own a0 it _ x Wfl Hx) as [Hd| ->]; [right; left; exact Hd|].
          try rewrite Hkey. right; right; right; exists r0; left; reflexivity.
        + destruct Hx as [Hx|[]]; discriminate. }
    destruct (out_of_window now (it_time it) hw); [inversion H; subst; apply Erase|].
    destruct od; [inversion H; subst; apply Erase|].
    destruct (append_hist a0 it over) as [a1 ev1] eqn:Ea. inversion H; subst; clear H.
    assert (Ep : disk_put a0 it false = (a0, it)).
    { unfold disk_put. destruct (negb (a_disk_on a0)); [reflexivity|]. destruct (negb (it_id it =? 0)); reflexivity. }
    destruct (put_append _ _ _ _ _ _ _ _ Ep Ea Wfl) as (W2 & I2 & D2 & K2 & A2).
    split; [exact W2|]. intros x [Hx|[Hx|Hx]].
    + destruct (Keep _ Hx) as [->|Hx']; [|left; apply I2; exact Hx'].
      try rewrite Hkey in K2. destruct K2 as [K2|K2]; [left; exact K2|].
      right; right; right. exists XMemLimit. exact K2.
    + right; left. apply D2. exact Hx.
    + exfalso. eapply A2; eauto.
  - (* ORestart *)
    set (a1 := {| a_mem := []; a_hist := []; a_out := [];
                  a_disk := map (fun d => {| d_key := d_key d; d_time := d_time d; d_id := 0 |}) (a_disk a);
                  a_next := 0; a_disk_on := a_disk_on a |}) in *.
    assert (W1 : wf a1).
    { unfold wf, a1, items; simpl. split; [lia|]. split; [|intros p []].
      intros d Hd. apply in_map_iff in Hd. destruct Hd as (d0 & <- & _). simpl. lia. }
    destruct (read_n_spec nread a1 W1) as (W2 & I2 & D2).
    inversion H; subst; clear H. split; [exact W2|].
    assert (Dk : dkeys a1 = dkeys a).
    { unfold dkeys, a1; simpl. rewrite map_map. reflexivity. }
    intros x [Hx|[Hx|Hx]].
    + destruct (on_disk a x) eqn:Eo.
      * right; left. rewrite D2, Dk. unfold on_disk in Eo. apply existsb_exists in Eo. destruct Eo as (d & Hd & He).
        apply Nat.eqb_eq in He. subst. unfold dkeys. apply in_map. exact Hd.
      * right; right; right. exists XCrash. unfold crash_events. apply in_flat_map.
        unfold ikeys in Hx. apply in_map_iff in Hx. destruct Hx as (y & <- & Hy). exists y. split; [exact Hy|].
        rewrite Eo. left. reflexivity.
    + right; left. rewrite D2, Dk. exact Hx.
    + exfalso. unfold crash_events in Hx. apply in_flat_map in Hx. destruct Hx as (y & _ & Hy).
      destruct (on_disk a (it_key y)); [destruct Hy|destruct Hy as [Hy|[]]; discriminate].
Qed.

Lemma wf_init d : wf (agent_init d).
Proof. unfold wf, agent_init, items; simpl. split; [lia|]. split; [intros ? []|intros ? []]. Qed.

Lemma exits_app_l ev1 ev2 k : exits ev1 k -> exits (ev1 ++ ev2) k.
Proof. intros [H|[r H]]; [left|right; exists r]; apply in_or_app; auto. Qed.
Lemma exits_app_r ev1 ev2 k : exits ev2 k -> exits (ev1 ++ ev2) k.
Proof. intros [H|[r H]]; [left|right; exists r]; apply in_or_app; auto. Qed.

Lemma run_inv ops : forall a a' ev, wf a -> arun a ops = (a', ev) ->
  wf a' /\ forall k, (In k (ikeys a) \/ In k (dkeys a) \/ In (EvAccept k) ev) -> In k (ikeys a') \/ In k (dkeys a') \/ exits ev k.
Proof.
  induction ops as [|o r IH]; intros a a' ev W H; simpl in H.
  - inversion H; subst. split; [exact W|]. intros k [Hk|[Hk|[]]]; auto.
  - destruct (astep a o) as [[a1 ev1] ob] eqn:Es. destruct (arun a1 r) as [a2 ev2] eqn:Er. inversion H; subst; clear H.
    destruct (step_inv _ _ _ _ _ W Es) as (W1 & S1). destruct (IH _ _ _ W1 Er) as (W2 & S2).
    split; [exact W2|]. intros k Hk.
    assert (Hc : (In k (ikeys a) \/ In k (dkeys a) \/ In (EvAccept k) ev1) \/ In (EvAccept k) ev2).
    { destruct Hk as [Hk|[Hk|Hk]]; auto. apply in_app_or in Hk. tauto. }
    destruct Hc as [Hc|Hc].
    + destruct (S1 k Hc) as [Hk1|[Hk1|Hk1]].
      * destruct (S2 k (or_introl Hk1)) as [?|[?|?]]; auto. right; right. apply exits_app_r; assumption.
      * destruct (S2 k (or_intror (or_introl Hk1))) as [?|[?|?]]; auto. right; right. apply exits_app_r; assumption.
      * right; right. apply exits_app_l; assumption.
    + destruct (S2 k (or_intror (or_intror Hc))) as [?|[?|?]]; auto. right; right. apply exits_app_r; assumption.
Qed.

(* the first clause of C01, for every history of the agent *)
Theorem forget_only_after_ack :
  forall disk_on ops a ev k,
  arun (agent_init disk_on) ops = (a, ev) -> In (EvAccept k) ev ->
  present a k \/ In (EvAck k) ev \/ exists r, In (EvDrop k r) ev.
Proof.
  intros d ops a ev k H Hk. destruct (run_inv ops _ _ _ (wf_init d) H) as (_ & S).
  destruct (S k (or_intror (or_intror Hk))) as [Hp|[Hp|Hp]].
  - left. apply present_iff. auto.
  - left. apply present_iff. auto.
  - right. exact Hp.
Qed.

(* an ack is logged only when a response carrying discard was consumed: EvAck k is emitted by exactly the two
   steps whose answer is ADiscard *)
Lemma ack_needs_discard a o a' ev ob k :
  astep a o = (a', ev, ob) -> In (EvAck k) ev ->
  (exists now dok over, o = ORecentFinish k now ADiscard dok over) \/ (exists now hw, o = OHistIter k now hw ADiscard).
Proof.
  intros H Hk. destruct o as [k0 t dok over|k0 t save dok|k0 now ans dok over|now|k0 now hw ans|k0 now hw od over|nread]; simpl in H.
  - destruct (disk_put a _ dok) as [a1 it1]. destruct (append_hist a1 it1 over) as [a2 ev2] eqn:Ea. inversion H; subst.
    exfalso. destruct Hk as [Hk|Hk]; [discriminate|]. unfold append_hist in Ea.
    destruct over; [destruct (it_id it1 =? 0)|]; inversion Ea; subst; simpl in Hk; try tauto. destruct Hk as [Hk|[]]; discriminate.
  - destruct (if save then _ else _) as [a1 it1]. inversion H; subst. destruct Hk as [Hk|[]]; discriminate.
  - destruct (find_item k0 (a_mem a)) as [it|] eqn:Ef; [|inversion H; subst; destruct Hk].
    destruct (find_item_in _ _ _ Ef) as [_ Hkey].
    destruct (negb (too_old_for_recent now (it_time it)) && match ans with ADiscard => true | _ => false end) eqn:Eres.
    + inversion H; subst; clear H. apply andb_true_iff in Eres. destruct Eres as [_ Ea]. destruct ans; try discriminate.
      apply in_app_or in Hk. destruct Hk as [Hk|[Hk|[]]].
      * destruct (negb (too_old_for_recent now (it_time it)) && true); simpl in Hk; [destruct Hk as [Hk|[]]; discriminate|destruct Hk].
      * inversion Hk; subst. left. eauto.
    + destruct (disk_put _ it dok) as [a1 it1]. destruct (append_hist a1 it1 over) as [a2 ev2] eqn:Ea. inversion H; subst. exfalso.
      apply in_app_or in Hk. destruct Hk as [Hk|Hk].
      * destruct (negb (too_old_for_recent now (it_time it)) && match ans with ANoReplica => false | _ => true end); simpl in Hk; [destruct Hk as [Hk|[]]; discriminate|destruct Hk].
      * unfold append_hist in Ea. destruct over; [destruct (it_id it1 =? 0)|]; inversion Ea; subst; simpl in Hk; try tauto. destruct Hk as [Hk|[]]; discriminate.
  - destruct (pop_oldest a now) as [a1 r]. inversion H; subst. destruct Hk.
  - destruct (find_item k0 (a_out a)) as [it|] eqn:Ef; [|inversion H; subst; destruct Hk].
    destruct (out_of_window now (it_time it) hw); [inversion H; subst; destruct Hk as [Hk|[]]; discriminate|].
    destruct (negb (it_data it) && negb (a_disk_on a)); [inversion H; subst; destruct Hk as [Hk|[]]; discriminate|].
    destruct ans; inversion H; subst; simpl in Hk.
    + destruct Hk as [Hk|[Hk|[]]]; [discriminate|]. inversion Hk; subst. right. eauto.
    + destruct Hk as [Hk|[]]; discriminate.
    + destruct Hk as [Hk|[]]; discriminate.
    + destruct Hk.
  - destruct (find_item k0 (a_out a)) as [it|] eqn:Ef; [|inversion H; subst; destruct Hk].
    destruct (out_of_window now (it_time it) hw); [inversion H; subst; destruct Hk as [Hk|[]]; discriminate|].
    destruct od; [inversion H; subst; destruct Hk as [Hk|[]]; discriminate|].
    destruct (append_hist _ it over) as [a1 ev1] eqn:Ea. inversion H; subst. exfalso.
    unfold append_hist in Ea. destruct over; [destruct (it_id it =? 0)|]; inversion Ea; subst; simpl in Hk; try tauto. destruct Hk as [Hk|[]]; discriminate.
  - inversion H; subst. exfalso. unfold crash_events in Hk. apply in_flat_map in Hk. destruct Hk as (y & _ & Hy).
    destruct (on_disk a (it_key y)); [destruct Hy|destruct Hy as [Hy|[]]; discriminate].
Qed.
