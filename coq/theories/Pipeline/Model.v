(* C01 — accepted metric data is never silently lost between agent and storage.
   Executable model (definitions only) of
     internal/agent/agent_shard_send.go   sendToSenders, goSendRecent/sendRecent, sendHistoric, checkOutOfWindow,
                                          diskCachePutWithLog/diskCacheEraseWithLog, appendHistoricBucketsToSend,
                                          popOldestHistoricSecondLocked/readHistoricSecondLocked, goEraseHistoric
     internal/agent/disk_cache.go         the id/knownBuckets/tail level only (bytes are C09's model)
     internal/aggregator/aggregator_handlers.go  handleSendSourceBucket3/handleSendSourceBucket (answers + filing;
                                          the rounding/filing decision itself is Routing.Model.file_bucket, C10)
     internal/aggregator/aggregator.go    advanceRecentBuckets, goTicker, goInsert, popOldestHistoricBucket
   One atomic step = one critical section / one loop iteration of the code.  Every accepted second carries a
   ghost identity [key]; the steps emit ghost events from which the property is read off. *)
From Coq Require Import ZArith List Bool Arith.
From SH Require Import Common.Wrap Routing.Model Gen.PipelineConsts.
Import ListNotations.
Open Scope Z_scope.

Definition key := nat.

(* ------------------------------------------------------------------ agent ----------------------------- *)

(* compressedBucketData + ghost key; it_id = 0 <-> not saved to disk; it_data = len(cbd.data) != 0 *)
Record item := { it_key : key; it_time : Z; it_id : Z; it_data : bool }.
(* one live (written, not erased) record of the shard's disk cache, in physical order;
   d_id = 0 <-> a record of an earlier run not yet handed out by ReadNextTailBucket *)
Record drec := { d_key : key; d_time : Z; d_id : Z }.

Record agent := {
  a_mem : list item;    (* buckets in the hands of goSendRecent goroutines *)
  a_hist : list item;   (* Shard.historicBucketsToSend, slice order *)
  a_out : list item;    (* popped by goSendHistoric/goEraseHistoric, in the hands of that goroutine *)
  a_disk : list drec;   (* live records on disk *)
  a_next : Z;           (* diskCacheShard.lastBucketID *)
  a_disk_on : bool      (* agent.diskBucketCache != nil *)
}.

Inductive reason :=
| XWindow       (* checkOutOfWindow: "does not fit into full admission window, throwing out" *)
| XMemLimit     (* appendHistoricBucketsToSend: not saved to disk and over the memory limit *)
| XDiskLimit    (* goEraseHistoric: "violates disk size limit, throwing out" *)
| XNoData       (* sendHistoric: no data in memory and no disk storage configured *)
| XCrash.       (* agent restart while the second was in memory only *)

Inductive aev :=
| EvAccept (k : key)
| EvSent (k : key) (historic : bool)     (* a SendSourceBucket3 request left the agent *)
| EvAck (k : key)                        (* a response carrying discard was consumed for k *)
| EvDrop (k : key) (r : reason).

(* what the network/aggregator did with one send attempt *)
Inductive answer := ADiscard | AKeep | AError | ANoReplica.

Inductive aop :=
| OAcceptFull (k : key) (t : Z) (disk_ok over : bool)          (* sendToSenders, channel full or closed *)
| ORecentBegin (k : key) (t : Z) (save disk_ok : bool)         (* sendToSenders -> goSendRecent, save-before-send *)
| ORecentFinish (k : key) (now : Z) (ans : answer) (disk_ok over : bool)  (* sendRecent + erase / put+append *)
| OPop (now : Z)                                               (* popOldestHistoricSecondLocked *)
| OHistIter (k : key) (now hw : Z) (ans : answer)              (* one iteration of the sendHistoric loop *)
| OEraseIter (k : key) (now hw : Z) (over_disk over : bool)    (* goEraseHistoric after its pop *)
| ORestart (nread : nat).                                      (* process restart: memory lost, disk re-read *)

Definition item_eqk (k : key) (it : item) : bool := Nat.eqb (it_key it) k.
Definition find_item (k : key) (l : list item) : option item := find (item_eqk k) l.
Fixpoint remove_item (k : key) (l : list item) : list item :=
  match l with
  | [] => []
  | it :: r => if item_eqk k it then r else it :: remove_item k r
  end.

(* diskCachePutWithLog; disk_ok = (MaxHistoricDiskSize > 0 and PutBucket returned no error) *)
Definition disk_put (a : agent) (it : item) (disk_ok : bool) : agent * item :=
  if negb (a_disk_on a) then (a, it)
  else if negb (it_id it =? 0) then (a, it)
  else if negb disk_ok then (a, it)
  else let id := a_next a + 1 in
       ({| a_mem := a_mem a; a_hist := a_hist a; a_out := a_out a;
           a_disk := a_disk a ++ [{| d_key := it_key it; d_time := it_time it; d_id := id |}];
           a_next := id; a_disk_on := a_disk_on a |},
        {| it_key := it_key it; it_time := it_time it; it_id := id; it_data := it_data it |}).

(* diskCacheEraseWithLog / eraseBucket: erasing an unknown id is a NOP *)
Definition disk_erase (a : agent) (id : Z) : agent :=
  if negb (a_disk_on a) then a
  else {| a_mem := a_mem a; a_hist := a_hist a; a_out := a_out a;
          a_disk := filter (fun d => negb ((d_id d =? id) && negb (id =? 0))) (a_disk a);
          a_next := a_next a; a_disk_on := a_disk_on a |}.

Definition set_mem (a : agent) (m : list item) : agent :=
  {| a_mem := m; a_hist := a_hist a; a_out := a_out a; a_disk := a_disk a; a_next := a_next a; a_disk_on := a_disk_on a |}.
Definition set_hist (a : agent) (h : list item) : agent :=
  {| a_mem := a_mem a; a_hist := h; a_out := a_out a; a_disk := a_disk a; a_next := a_next a; a_disk_on := a_disk_on a |}.
Definition set_out (a : agent) (o : list item) : agent :=
  {| a_mem := a_mem a; a_hist := a_hist a; a_out := o; a_disk := a_disk a; a_next := a_next a; a_disk_on := a_disk_on a |}.

(* appendHistoricBucketsToSend; over = historicBucketsDataSize+len(data) > MaxHistoricBucketsMemorySize/NumShards *)
Definition append_hist (a : agent) (it : item) (over : bool) : agent * list aev :=
  if over then
    if it_id it =? 0 then (a, [EvDrop (it_key it) XMemLimit])
    else (set_hist a (a_hist a ++ [{| it_key := it_key it; it_time := it_time it; it_id := it_id it; it_data := false |}]), [])
  else (set_hist a (a_hist a ++ [it]), []).

(* checkOutOfWindow's condition (uint32 arithmetic) *)
Definition out_of_window (now t hw : Z) : bool := negb ((now <? hw) || (u32 (now - hw) <=? t)).

(* sendRecent's "not bother sending" condition *)
Definition too_old_for_recent (now t : Z) : bool := u32 (t + max_short_window + future_window) <? now.

(* index of the first minimal time (strict < keeps the earliest) *)
Fixpoint oldest_pos (l : list item) (i best : nat) (bt : Z) : nat :=
  match l with
  | [] => best
  | it :: r => if it_time it <? bt then oldest_pos r (S i) i (it_time it) else oldest_pos r (S i) best bt
  end.

Fixpoint replace_nth {A} (n : nat) (l : list A) (x : A) : list A :=
  match l, n with
  | [], _ => []
  | _ :: r, O => x :: r
  | y :: r, S m => y :: replace_nth m r x
  end.

(* hist[pos] = hist[last]; hist = hist[:last] *)
Definition swap_remove (l : list item) (pos : nat) : list item :=
  match rev l with
  | [] => []
  | lastit :: rinit =>
      let init := rev rinit in
      if Nat.eqb pos (length init) then init else replace_nth pos init lastit
  end.

(* ReadNextTailBucket: first live record not yet handed out *)
Fixpoint read_tail (d : list drec) (id : Z) : option (drec * list drec) :=
  match d with
  | [] => None
  | r :: rest =>
      if d_id r =? 0 then Some (r, {| d_key := d_key r; d_time := d_time r; d_id := id |} :: rest)
      else match read_tail rest id with
           | Some (x, rest') => Some (x, r :: rest')
           | None => None
           end
  end.

(* readHistoricSecondLocked *)
Definition read_historic_second (a : agent) : agent :=
  if negb (a_disk_on a) then a
  else match read_tail (a_disk a) (a_next a + 1) with
       | None => a
       | Some (r, d') =>
           {| a_mem := a_mem a;
              a_hist := a_hist a ++ [{| it_key := d_key r; it_time := d_time r; it_id := a_next a + 1; it_data := false |}];
              a_out := a_out a; a_disk := d'; a_next := a_next a + 1; a_disk_on := a_disk_on a |}
       end.

(* popOldestHistoricSecondLocked: Some item = popped (and moved to a_out) *)
Definition pop_oldest (a : agent) (now : Z) : agent * option item :=
  match a_hist a with
  | [] => (a, None)
  | it0 :: _ =>
      let pos := oldest_pos (a_hist a) 0 0 (it_time it0) in
      match nth_error (a_hist a) pos with
      | None => (a, None)
      | Some it =>
          if (now <=? it_time it) && (it_time it <=? u32 (now + max_future_seconds_on_disk)) then (a, None)
          else
            let a1 := set_hist a (swap_remove (a_hist a) pos) in
            let a2 := read_historic_second a1 in
            (set_out a2 (a_out a2 ++ [it]), Some it)
      end
  end.

Fixpoint read_n (n : nat) (a : agent) : agent :=
  match n with O => a | S m => read_n m (read_historic_second a) end.

Definition on_disk (a : agent) (k : key) : bool := existsb (fun d => Nat.eqb (d_key d) k) (a_disk a).

Definition crash_events (a : agent) : list aev :=
  flat_map (fun it => if on_disk a (it_key it) then [] else [EvDrop (it_key it) XCrash]) (a_mem a ++ a_hist a ++ a_out a).

(* observable result of a step (compared with the implementation) *)
Inductive aobs :=
| RNone
| RBool (b : bool)                   (* sendRecent's result *)
| RSent (sent : bool) (res : bool)   (* request seen by the aggregator?, result *)
| RPop (o : option (Z * Z * bool))   (* popped (time, id, has data) *)
| RIter (dropped sent erased : bool).

Definition astep (a : agent) (o : aop) : agent * list aev * aobs :=
  match o with
  | OAcceptFull k t disk_ok over =>
      let it := {| it_key := k; it_time := t; it_id := 0; it_data := true |} in
      let '(a1, it1) := disk_put a it disk_ok in
      let '(a2, ev) := append_hist a1 it1 over in
      (a2, EvAccept k :: ev, RNone)
  | ORecentBegin k t save disk_ok =>
      let it := {| it_key := k; it_time := t; it_id := 0; it_data := true |} in
      let '(a1, it1) := if save then disk_put a it disk_ok else (a, it) in
      (set_mem a1 (a_mem a1 ++ [it1]), [EvAccept k], RNone)
  | ORecentFinish k now ans disk_ok over =>
      match find_item k (a_mem a) with
      | None => (a, [], RNone)
      | Some it =>
          let a0 := set_mem a (remove_item k (a_mem a)) in
          let old := too_old_for_recent now (it_time it) in
          let sent := negb old && match ans with ANoReplica => false | _ => true end in
          let res := negb old && match ans with ADiscard => true | _ => false end in
          let evs := if sent then [EvSent k false] else [] in
          if res then (disk_erase a0 (it_id it), evs ++ [EvAck k], RSent sent true)
          else
            let '(a1, it1) := disk_put a0 it disk_ok in
            let '(a2, ev) := append_hist a1 it1 over in
            (a2, evs ++ ev, RSent sent false)
      end
  | OPop now =>
      let '(a1, r) := pop_oldest a now in
      (a1, [], RPop (match r with Some it => Some (it_time it, it_id it, it_data it) | None => None end))
  | OHistIter k now hw ans =>
      match find_item k (a_out a) with
      | None => (a, [], RNone)
      | Some it =>
          if out_of_window now (it_time it) hw then
            (disk_erase (set_out a (remove_item k (a_out a))) (it_id it), [EvDrop k XWindow], RIter true false true)
          else if negb (it_data it) && negb (a_disk_on a) then
            (set_out a (remove_item k (a_out a)), [EvDrop k XNoData], RIter true false false)
          else match ans with
               | ANoReplica => (a, [], RIter false false false)
               | AError | AKeep => (a, [EvSent k true], RIter false true false)
               | ADiscard =>
                   (disk_erase (set_out a (remove_item k (a_out a))) (it_id it), [EvSent k true; EvAck k], RIter false true true)
               end
      end
  | OEraseIter k now hw over_disk over =>
      match find_item k (a_out a) with
      | None => (a, [], RNone)
      | Some it =>
          let a0 := set_out a (remove_item k (a_out a)) in
          if out_of_window now (it_time it) hw then (disk_erase a0 (it_id it), [EvDrop k XWindow], RIter true false true)
          else if over_disk then (disk_erase a0 (it_id it), [EvDrop k XDiskLimit], RIter true false true)
          else let '(a1, ev) := append_hist a0 it over in (a1, ev, RIter false false false)
      end
  | ORestart nread =>
      let ev := crash_events a in
      let a1 := {| a_mem := []; a_hist := []; a_out := [];
                   a_disk := map (fun d => {| d_key := d_key d; d_time := d_time d; d_id := 0 |}) (a_disk a);
                   a_next := 0; a_disk_on := a_disk_on a |} in
      (read_n nread a1, ev, RNone)
  end.

Definition agent_init (disk_on : bool) : agent :=
  {| a_mem := []; a_hist := []; a_out := []; a_disk := []; a_next := 0; a_disk_on := disk_on |}.

Fixpoint arun (a : agent) (ops : list aop) : agent * list aev :=
  match ops with
  | [] => (a, [])
  | o :: r => let '(a1, ev, _) := astep a o in let '(a2, ev2) := arun a1 r in (a2, ev ++ ev2)
  end.

Definition present (a : agent) (k : key) : Prop :=
  In k (map it_key (a_mem a)) \/ In k (map it_key (a_hist a)) \/ In k (map it_key (a_out a)) \/ In k (map d_key (a_disk a)).

(* ------------------------------------------------------------------ aggregator ------------------------ *)

Record req := { r_id : nat; r_key : key; r_time : Z; r_hist : bool }.
Record bucket := { b_time : Z; b_contrib : list req; b_merged : list key }.

Record agg := {
  g_recent : list bucket;   (* recentBuckets (times oldest, oldest+1, …) *)
  g_hist : list bucket;     (* historicBuckets, any order *)
  g_queue : list bucket;    (* handed to bucketsToSend, not yet inserted *)
  g_rk : Z;                 (* replicaKey *)
  g_down : bool             (* bucketsToSend == nil: shutdown *)
}.

Inductive reject :=
| JUndecodable | JWrongShard | JOldAgent | JFuture | JBeyondWindow | JStale.

Inductive gev :=
| GvReject (r : req) (j : reject)   (* response with discard, nothing stored *)
| GvKeep (r : req)                  (* response without discard *)
| GvError (r : req)                 (* rpc error / no response *)
| GvAck (r : req)                   (* response with discard after a successful insert *)
| GvInsert (ok : bool) (ks : list key).   (* one INSERT: the seconds whose rows were in the body *)

(* request flags: what the checks before the filing decision see *)
Record rflags := { f_decodable : bool; f_shard_ok : bool; f_old_agent : bool }.

(* what the contributor of a bucket sees ON THE WIRE: an rpc error replaces the response body, so the discard bit of
   a response that is sent together with an error never reaches the agent *)
Definition insert_answer (ok : bool) (r : req) : gev :=
  if negb ok && gen_insert_sends_err then GvError r else if gen_insert_discard ok then GvAck r else GvKeep r.
Definition full_answer (r : req) : gev :=
  if gen_full_err then GvError r else if gen_full_discard true then GvAck r else GvKeep r.

Definition empty_bucket (t : Z) : bucket := {| b_time := t; b_contrib := []; b_merged := [] |}.
Definition add_to_bucket (b : bucket) (r : req) : bucket :=
  {| b_time := b_time b; b_contrib := b_contrib b ++ [r]; b_merged := b_merged b ++ [r_key r] |}.

Definition oldest_time (g : agg) : Z := match g_recent g with b :: _ => b_time b | [] => 0 end.
Definition newest_time (g : agg) : Z := match rev (g_recent g) with b :: _ => b_time b | [] => 0 end.

Fixpoint file_recent (l : list bucket) (t : Z) (r : req) : list bucket :=
  match l with
  | [] => []
  | b :: rest => if b_time b =? t then add_to_bucket b r :: rest else b :: file_recent rest t r
  end.
Fixpoint file_hist (l : list bucket) (t : Z) (r : req) : list bucket :=
  match l with
  | [] => [add_to_bucket (empty_bucket t) r]
  | b :: rest => if b_time b =? t then add_to_bucket b r :: rest else b :: file_hist rest t r
  end.

Definition set_recent (g : agg) (l : list bucket) : agg :=
  {| g_recent := l; g_hist := g_hist g; g_queue := g_queue g; g_rk := g_rk g; g_down := g_down g |}.
Definition set_ghist (g : agg) (l : list bucket) : agg :=
  {| g_recent := g_recent g; g_hist := l; g_queue := g_queue g; g_rk := g_rk g; g_down := g_down g |}.
Definition set_queue (g : agg) (l : list bucket) : agg :=
  {| g_recent := g_recent g; g_hist := g_hist g; g_queue := l; g_rk := g_rk g; g_down := g_down g |}.

(* handleSendSourceBucket3 + handleSendSourceBucket up to the long poll *)
Definition grecv (g : agg) (r : req) (f : rflags) (deny_old : bool) (hw : Z) : agg * list gev :=
  if negb (f_decodable f) then (g, [if forallb (fun x => x) gen_undecodable_discard then GvReject r JUndecodable else GvKeep r])
  else if deny_old && f_old_agent f then (g, [if gen_old_agent_discard then GvReject r JOldAgent else GvKeep r])
  else if negb (f_shard_ok f) then (g, [if gen_wrong_shard_discard then GvReject r JWrongShard else GvKeep r])
  else if g_down g then (g, if gen_shutdown_hijacks then [] else [if gen_shutdown_discard then GvAck r else GvKeep r])   (* hijacked, never answered *)
  else match file_bucket (r_hist r) (r_time r) (oldest_time g) (newest_time g) hw (g_rk g) with
       | None => (g, [])
       | Some FDiscard =>
           (g, [GvReject r (if (newest_time g <? match round_to_our_time 3 (r_time r) (g_rk g) with Some x => x | None => 0 end)
                            then JFuture else JBeyondWindow)])
       | Some FKeep => (g, [GvKeep r])
       | Some (FRecent t) => (set_recent g (file_recent (g_recent g) t r), [])
       | Some (FHistoric t) => (set_ghist g (file_hist (g_hist g) t r), [])
       end.

(* advanceRecentBuckets: (ready buckets, new recentBuckets); sw = ShortWindow *)
Fixpoint split_ready (l : list bucket) (now sw : Z) : list bucket * list bucket :=
  match l with
  | [] => ([], [])
  | b :: rest => if u32 (b_time b + sw) <? now then let '(rd, keep) := split_ready rest now sw in (b :: rd, keep)
                 else ([], l)
  end.
Fixpoint extend_recent (l : list bucket) (first : Z) (n : nat) : list bucket :=
  (* append buckets until the list has n more elements than it has; times first + len … *)
  match n with
  | O => l
  | S m => extend_recent (l ++ [empty_bucket (u32 (first + Z.of_nat (length l)))]) first m
  end.
Definition advance_recent (l : list bucket) (now sw : Z) : list bucket * list bucket :=
  let '(rd, keep) := split_ready l now sw in
  let keep1 := match keep with [] => [empty_bucket (u32 (now - sw))] | _ => keep end in
  let first := match keep1 with b :: _ => b_time b | [] => 0 end in
  let want := Z.to_nat (sw + future_window) in
  (rd, extend_recent keep1 first (want - length keep1)).

(* goTicker on the ready buckets; room = one flag per own ready bucket: the select on bucketsToSend succeeded *)
Fixpoint tick_ready (g : agg) (rd : list bucket) (room : list bool) : agg * list gev :=
  match rd with
  | [] => (g, [])
  | b :: rest =>
      if negb (ticker_inserts (b_time b) (g_rk g)) then tick_ready g rest room
      else if g_down g then (g, [])
      else match room with
           | true :: room' => tick_ready (set_queue g (g_queue g ++ [b])) rest room'
           | _ => let '(g1, ev) := tick_ready g rest (tl room) in
                  (g1, map full_answer (b_contrib b) ++ ev)
           end
  end.

Definition gtick (g : agg) (now sw : Z) (room : list bool) : agg * list gev :=
  let '(rd, keep) := advance_recent (g_recent g) now sw in
  tick_ready (set_recent g keep) rd room.

(* popOldestHistoricBucket: (stale buckets, oldest non-stale bucket, rest) *)
Definition is_stale (oldest hw : Z) (b : bucket) : bool := (hw <=? oldest) && (b_time b <? u32 (oldest - hw)).
Fixpoint min_bucket (l : list bucket) (best : option bucket) : option bucket :=
  match l with
  | [] => best
  | b :: r => match best with
              | None => min_bucket r (Some b)
              | Some x => if b_time b <? b_time x then min_bucket r (Some b) else min_bucket r best
              end
  end.
Definition pop_historic (h : list bucket) (oldest hw : Z) : list bucket * option bucket * list bucket :=
  let stale := filter (is_stale oldest hw) h in
  let live := filter (fun b => negb (is_stale oldest hw b)) h in
  match min_bucket live None with
  | None => (stale, None, live)
  | Some m => (stale, Some m, filter (fun b => negb (b_time b =? b_time m)) live)
  end.

(* the historic part of one goInsert iteration: up to n more buckets *)
Fixpoint take_historic (n : nat) (h : list bucket) (oldest hw : Z) : list bucket * list bucket * list bucket :=
  match n with
  | O => ([], [], h)
  | S m => let '(stale, ob, rest) := pop_historic h oldest hw in
           match ob with
           | None => (stale, [], rest)
           | Some b => let '(st2, bs, rest2) := take_historic m rest oldest hw in (stale ++ st2, b :: bs, rest2)
           end
  end.

(* goInsert, one iteration: ok = sendToClickhouse returned no error; nhist = how many historic buckets this
   iteration tries to take (0 when willInsertHistoric is false) *)
Definition ginsert (g : agg) (ok : bool) (nhist : nat) (hw : Z) : agg * list gev :=
  match g_queue g with
  | [] => (g, [])
  | b :: q =>
      let '(stale, hs, rest) := take_historic nhist (g_hist g) (oldest_time g) hw in
      let batch := b :: hs in
      let g1 := set_queue (set_ghist g rest) q in
      let evstale := flat_map (fun s => map (fun r => if gen_stale_discard ok then GvReject r JStale else GvKeep r) (b_contrib s)) stale in
      let body := flat_map b_merged batch in
      let answers := flat_map (fun x => map (insert_answer ok) (b_contrib x)) batch in
      (g1, evstale ++ [GvInsert ok body] ++ answers)
  end.

Inductive gop :=
| GRecv (r : req) (f : rflags) (deny_old : bool) (hw : Z)
| GTick (now sw : Z) (room : list bool)
| GInsert (ok : bool) (nhist : nat) (hw : Z)
| GCancel (rid : nat)                 (* CancelLongpoll: the client went away; merged data stays *)
| GShutdown                           (* DisableNewInsert: bucketsToSend = nil *)
| GRestart (now sw : Z).              (* process restart: everything in memory is lost, nobody is answered *)

Definition drop_contrib (rid : nat) (b : bucket) : bucket :=
  {| b_time := b_time b; b_contrib := filter (fun r => negb (Nat.eqb (r_id r) rid)) (b_contrib b); b_merged := b_merged b |}.

Definition agg_init (now sw rk : Z) : agg :=
  {| g_recent := snd (advance_recent [] now sw); g_hist := []; g_queue := []; g_rk := rk; g_down := false |}.

Definition gstep (g : agg) (o : gop) : agg * list gev :=
  match o with
  | GRecv r f d hw => grecv g r f d hw
  | GTick now sw room => gtick g now sw room
  | GInsert ok n hw => ginsert g ok n hw
  | GCancel rid =>
      ({| g_recent := map (drop_contrib rid) (g_recent g); g_hist := map (drop_contrib rid) (g_hist g);
          g_queue := map (drop_contrib rid) (g_queue g); g_rk := g_rk g; g_down := g_down g |}, [])
  | GShutdown => ({| g_recent := g_recent g; g_hist := g_hist g; g_queue := g_queue g; g_rk := g_rk g; g_down := true |}, [])
  | GRestart now sw => (agg_init now sw (g_rk g), [])
  end.

Fixpoint grun (g : agg) (ops : list gop) : agg * list gev :=
  match ops with
  | [] => (g, [])
  | o :: r => let '(g1, ev) := gstep g o in let '(g2, ev2) := grun g1 r in (g2, ev ++ ev2)
  end.

(* the store: seconds whose rows were in the body of a successful INSERT *)
Fixpoint store_of (evs : list gev) : list key :=
  match evs with
  | [] => []
  | GvInsert true ks :: r => ks ++ store_of r
  | _ :: r => store_of r
  end.

(* ------------------------------------------------------------------ the composed system --------------- *)

(* The agent talks to the three replicas of its shard; [sys] interleaves agent steps, aggregator steps of each
   replica and the environment (lost responses are AError answers; restarts are steps). *)
Record sys := {
  s_agent : agent;
  s_aggs : list agg;           (* replicas *)
  s_alog : list aev;
  s_glog : list gev
}.

Inductive sop :=
| SAgent (o : aop)
| SAgg (i : nat) (o : gop).

(* an agent step that consumes an answer is justified by what the aggregators have emitted so far *)
Definition answered (glog : list gev) (k : key) (discard : bool) : Prop :=
  exists r, r_key r = k /\
    if discard then (In (GvAck r) glog \/ exists j, In (GvReject r j) glog) else In (GvKeep r) glog.

Definition justified (glog : list gev) (o : aop) : Prop :=
  match o with
  | ORecentFinish k _ ADiscard _ _ | OHistIter k _ _ ADiscard => answered glog k true
  | ORecentFinish k _ AKeep _ _ | OHistIter k _ _ AKeep => answered glog k false
  | _ => True
  end.

Inductive sstep : sys -> sop -> sys -> Prop :=
| SS_agent s o a' ev ob :
    justified (s_glog s) o -> astep (s_agent s) o = (a', ev, ob) ->
    sstep s (SAgent o) {| s_agent := a'; s_aggs := s_aggs s; s_alog := s_alog s ++ ev; s_glog := s_glog s |}
| SS_agg s i o g g' ev :
    nth_error (s_aggs s) i = Some g -> gstep g o = (g', ev) ->
    sstep s (SAgg i o) {| s_agent := s_agent s; s_aggs := replace_nth i (s_aggs s) g'; s_alog := s_alog s; s_glog := s_glog s ++ ev |}.

Inductive sreach (s0 : sys) : sys -> Prop :=
| SR_init : sreach s0 s0
| SR_step s o s' : sreach s0 s -> sstep s o s' -> sreach s0 s'.

Definition sys_init (disk_on : bool) (now sw : Z) : sys :=
  {| s_agent := agent_init disk_on; s_aggs := [agg_init now sw 1; agg_init now sw 2; agg_init now sw 3];
     s_alog := []; s_glog := [] |}.

(* ------------------------------------------------------------------ fault-free continuation ------------ *)
(* [srun] executes a schedule on the composed system (no justification check: the schedules below only use answers
   the aggregators have produced; Proofs show they are real [sstep]s). *)
Definition sstep_fun (s : sys) (o : sop) : sys :=
  match o with
  | SAgent ao =>
      let '(a', ev, _) := astep (s_agent s) ao in
      {| s_agent := a'; s_aggs := s_aggs s; s_alog := s_alog s ++ ev; s_glog := s_glog s |}
  | SAgg i go =>
      match nth_error (s_aggs s) i with
      | None => s
      | Some g => let '(g', ev) := gstep g go in
                  {| s_agent := s_agent s; s_aggs := replace_nth i (s_aggs s) g'; s_alog := s_alog s; s_glog := s_glog s ++ ev |}
      end
  end.
Definition srun (s : sys) (ops : list sop) : sys := fold_left sstep_fun ops s.

Definition ok_flags : rflags := {| f_decodable := true; f_shard_ok := true; f_old_agent := false |}.

(* a clock at which every bucket of the replica's recent window is ready *)
Definition flush_time (g : agg) (sw : Z) : Z := 1 + fold_right Z.max 0 (map (fun b => u32 (b_time b + sw)) (g_recent g)).

(* what one replica does, with no faults, to serve one historic request r: its clock passes the whole current window
   (every own bucket goes to the inserters), the request arrives, the clock passes the fresh window, and the inserters
   work through the conveyor, every INSERT succeeding, taking the waiting historic buckets along *)
Definition serve_ops (g : agg) (r : req) (sw hw : Z) : list gop :=
  let t1 := flush_time g sw in
  [GTick t1 sw (repeat true (length (g_recent g))); GRecv r ok_flags false hw; GTick (t1 + sw + 4) sw (repeat true (Z.to_nat (sw + future_window)))]
  ++ repeat (GInsert true (S (length (g_hist g))) hw) (length (g_queue g) + length (g_recent g) + Z.to_nat (sw + future_window)).

Definition hist_request (it : item) (rid : nat) : req := {| r_id := rid; r_key := it_key it; r_time := it_time it; r_hist := true |}.

(* one round of the continuation for the second the historic sender holds (a_out) or pops next: replica i serves it,
   the answer arrives, the agent consumes it *)
Definition round_ops (s : sys) (i : nat) (it : item) (now sw hw : Z) : list sop :=
  match nth_error (s_aggs s) i with
  | None => []
  | Some g => map (SAgg i) (serve_ops g (hist_request it (length (s_glog s))) sw hw) ++ [SAgent (OHistIter (it_key it) now hw ADiscard)]
  end.

(* the next second the historic conveyor works on, and the whole continuation: n rounds, the clock of round j being
   clock j, the serving replica the primary of the second (all replicas up) *)
Definition next_item (a : agent) (now : Z) : agent * option item :=
  match a_out a with
  | it :: _ => (a, Some it)
  | [] => pop_oldest a now
  end.

Fixpoint drain (s : sys) (clock : nat -> Z) (sw hw : Z) (n : nat) : sys :=
  match n with
  | O => s
  | S m =>
      let now := clock O in
      let '(a1, oi) := next_item (s_agent s) now in
      let s1 := {| s_agent := a1; s_aggs := s_aggs s; s_alog := s_alog s; s_glog := s_glog s |} in
      match oi with
      | None => drain s1 (fun j => clock (S j)) sw hw m
      | Some it => drain (srun s1 (round_ops s1 (Z.to_nat (primary_shift (it_time it))) it now sw hw)) (fun j => clock (S j)) sw hw m
      end
  end.

(* explicit length of one round: the bound of the progress theorem *)
Definition round_len (g : agg) (sw : Z) : nat := 4 + (length (g_queue g) + length (g_recent g) + Z.to_nat (sw + future_window)).
