(* C01, bounded progress: the fault-free continuation of one aggregator replica serves a historic request. *)
From Coq Require Import ZArith List Bool Arith Lia.
From SH Require Import Common.Wrap Routing.Model Routing.Proofs Gen.PipelineConsts Pipeline.Model Pipeline.ProofsAgent Pipeline.ProofsAgg Pipeline.Proofs.
Import ListNotations.
Open Scope Z_scope.

(* ---- the recent window ---- *)
Definition fresh (first : Z) (n : nat) : list bucket := map (fun i => empty_bucket (u32 (first + Z.of_nat i))) (seq 0 n).

Lemma extend_recent_eq k : forall l first,
  extend_recent l first k = l ++ map (fun i => empty_bucket (u32 (first + Z.of_nat i))) (seq (length l) k).
Proof.
  induction k as [|k IH]; intros l first; simpl; [rewrite app_nil_r; reflexivity|].
  rewrite IH, app_length, <- app_assoc. simpl. rewrite Nat.add_1_r. reflexivity.
Qed.

Lemma split_ready_all l now sw : (forall b, In b l -> u32 (b_time b + sw) < now) -> split_ready l now sw = (l, []).
Proof.
  induction l as [|b r IH]; intros H; simpl; [reflexivity|].
  assert (E : (u32 (b_time b + sw) <? now) = true) by (apply Z.ltb_lt, H; left; reflexivity).
  rewrite E, IH; [reflexivity|]. intros x Hx. apply H. right; exact Hx.
Qed.

Lemma fold_max_ge (l : list Z) x : In x l -> x <= fold_right Z.max 0 l.
Proof. induction l as [|y r IH]; simpl; [tauto|]. intros [->|H]; [lia|]. specialize (IH H). lia. Qed.

Lemma flush_time_ready g sw b : In b (g_recent g) -> u32 (b_time b + sw) < flush_time g sw.
Proof.
  intros H. unfold flush_time.
  assert (u32 (b_time b + sw) <= fold_right Z.max 0 (map (fun b0 => u32 (b_time b0 + sw)) (g_recent g))).
  { apply fold_max_ge. apply in_map_iff. exists b. auto. }
  lia.
Qed.

Lemma flush_time_pos g sw : 1 <= flush_time g sw.
Proof.
  unfold flush_time. assert (0 <= fold_right Z.max 0 (map (fun b0 => u32 (b_time b0 + sw)) (g_recent g))).
  { induction (map (fun b0 => u32 (b_time b0 + sw)) (g_recent g)); simpl; lia. }
  lia.
Qed.

(* the window after a tick that made every bucket ready *)
Lemma advance_all l now sw : 0 <= sw -> (forall b, In b l -> u32 (b_time b + sw) < now) ->
  advance_recent l now sw = (l, fresh (u32 (now - sw)) (Z.to_nat (sw + future_window))).
Proof.
  intros Hsw H. unfold advance_recent. rewrite (split_ready_all _ _ _ H). cbn [length].
  rewrite extend_recent_eq. cbn [length]. unfold fresh.
  assert (En : Z.to_nat (sw + future_window) = S (Z.to_nat (sw + future_window) - 1)).
  { unfold future_window. lia. }
  rewrite En at 2. cbn [seq map]. rewrite Z.add_0_r. rewrite (u32_id (u32 _)) by apply u32_range.
  cbn [b_time empty_bucket app]. reflexivity.
Qed.

Lemma fresh_in first n b : In b (fresh first n) <-> exists i, (i < n)%nat /\ b = empty_bucket (u32 (first + Z.of_nat i)).
Proof.
  unfold fresh. rewrite in_map_iff. split.
  - intros (i & <- & Hi). apply in_seq in Hi. exists i. split; [lia|reflexivity].
  - intros (i & Hi & ->). exists i. split; [reflexivity|apply in_seq; lia].
Qed.

Lemma oldest_fresh g first n : g_recent g = fresh first (S n) -> oldest_time g = u32 first.
Proof. unfold oldest_time, fresh. intros ->. cbn [seq map]. rewrite Z.add_0_r. reflexivity. Qed.

Lemma newest_fresh g first n : g_recent g = fresh first (S n) -> newest_time g = u32 (first + Z.of_nat n).
Proof.
  unfold newest_time, fresh. intros ->. rewrite seq_S, map_app, rev_app_distr. reflexivity.
Qed.

(* filing keeps the times of the window *)
Lemma file_recent_times l t r : map b_time (file_recent l t r) = map b_time l.
Proof. induction l as [|b rest IH]; simpl; [reflexivity|]. destruct (b_time b =? t); simpl; [reflexivity|rewrite IH; reflexivity]. Qed.

Lemma file_recent_has l t r : (exists b, In b l /\ b_time b = t) ->
  exists b', In b' (file_recent l t r) /\ b_time b' = t /\ In r (b_contrib b').
Proof.
  induction l as [|b rest IH]; intros (x & Hx & Ht); [destruct Hx|]. simpl.
  destruct (b_time b =? t) eqn:E.
  - apply Z.eqb_eq in E. exists (add_to_bucket b r). split; [left; reflexivity|]. split; [exact E|].
    simpl. apply in_or_app. right. left. reflexivity.
  - destruct Hx as [->|Hx]; [apply Z.eqb_neq in E; contradiction|].
    destruct IH as (b' & Hb' & H1 & H2); [eauto|]. exists b'. split; [right; exact Hb'|auto].
Qed.

Lemma file_hist_has l t r : exists b, In b (file_hist l t r) /\ b_time b = t /\ In r (b_contrib b).
Proof.
  induction l as [|b rest IH]; simpl.
  - eexists. split; [left; reflexivity|]. simpl. split; [reflexivity|left; reflexivity].
  - destruct (b_time b =? t) eqn:E.
    + apply Z.eqb_eq in E. exists (add_to_bucket b r). split; [left; reflexivity|]. simpl.
      split; [exact E|]. apply in_or_app; right; left; reflexivity.
    + destruct IH as (x & Hx & Ht & Hc). exists x. split; [right; exact Hx|auto].
Qed.

(* the ticker with room for every bucket: every own bucket goes to the inserters, nobody is answered *)
Definition own (rk : Z) (b : bucket) : bool := ticker_inserts (b_time b) rk.

Lemma tick_ready_all rd : forall g n, g_down g = false -> (length rd <= n)%nat ->
  tick_ready g rd (repeat true n) = (set_queue g (g_queue g ++ filter (own (g_rk g)) rd), []).
Proof.
  induction rd as [|b rest IH]; intros g n Hd Hn; simpl.
  - rewrite app_nil_r. destruct g; reflexivity.
  - unfold own at 1. destruct (ticker_inserts (b_time b) (g_rk g)) eqn:E; simpl.
    + rewrite Hd. destruct n as [|n]; [simpl in Hn; lia|]. simpl.
      rewrite IH; [|exact Hd|simpl in Hn; lia]. simpl. rewrite <- app_assoc. reflexivity.
    + apply IH; [exact Hd|simpl in Hn; lia].
Qed.

(* ---- the historic queue: an inserter that may take as many buckets as there are takes every live one ---- *)
Lemma nodup_map_inj {A B} (f : A -> B) l x y : NoDup (map f l) -> In x l -> In y l -> f x = f y -> x = y.
Proof.
  induction l as [|z r IH]; simpl; [tauto|]. intros Hn Hx Hy E. inversion Hn as [|? ? Hni Hnr]; subst.
  destruct Hx as [->|Hx], Hy as [->|Hy]; auto.
  - exfalso. apply Hni. rewrite E. apply in_map. exact Hy.
  - exfalso. apply Hni. rewrite <- E. apply in_map. exact Hx.
Qed.

Lemma nodup_map_filter {A B} (f : A -> B) p l : NoDup (map f l) -> NoDup (map f (filter p l)).
Proof.
  induction l as [|z r IH]; simpl; [auto|]. intros Hn. inversion Hn as [|? ? Hni Hnr]; subst.
  destruct (p z); simpl; [|auto]. constructor; [|auto].
  intros Hin. apply Hni. apply in_map_iff in Hin. destruct Hin as (x & Hx & Hf). apply filter_In in Hf.
  rewrite <- Hx. apply in_map. tauto.
Qed.

Lemma filter_len_le {A} (p : A -> bool) l : (length (filter p l) <= length l)%nat.
Proof. induction l as [|z r IH]; simpl; [lia|]. destruct (p z); simpl; lia. Qed.

Lemma filter_length_lt {A} (p : A -> bool) l x : In x l -> p x = false -> (length (filter p l) < length l)%nat.
Proof.
  induction l as [|z r IH]; simpl; [tauto|]. intros [->|Hx] Hp.
  - rewrite Hp. pose proof (filter_len_le p r). lia.
  - specialize (IH Hx Hp). destruct (p z); simpl; lia.
Qed.

Lemma min_bucket_some l : forall best, (l <> [] \/ best <> None) -> exists m, min_bucket l best = Some m.
Proof.
  induction l as [|b r IH]; intros best H; simpl.
  - destruct best; [eauto|]. destruct H; congruence.
  - destruct best as [x|]; [destruct (b_time b <? b_time x)|]; apply IH; right; discriminate.
Qed.

Lemma take_historic_all n : forall h oldest hw b,
  NoDup (map b_time h) -> (length h <= n)%nat -> In b h -> is_stale oldest hw b = false ->
  In b (snd (fst (take_historic n h oldest hw))).
Proof.
  induction n as [|n IH]; intros h oldest hw b Hn Hl Hb Hs.
  - destruct h; [destruct Hb|simpl in Hl; lia].
  - simpl. unfold pop_historic.
    set (live := filter (fun x => negb (is_stale oldest hw x)) h).
    assert (Hbl : In b live) by (apply filter_In; rewrite Hs; auto).
    destruct (min_bucket_some live None) as (m & Em); [left; intros E; rewrite E in Hbl; destruct Hbl|].
    rewrite Em.
    set (rest := filter (fun x => negb (b_time x =? b_time m)) live).
    destruct (take_historic n rest oldest hw) as [[st2 bs] rest2] eqn:Et. simpl.
    assert (Hm : In m live) by (destruct (min_bucket_in _ _ _ Em) as [H|H]; [exact H|discriminate]).
    assert (Nl : NoDup (map b_time live)) by (apply nodup_map_filter; exact Hn).
    destruct (Z.eq_dec (b_time b) (b_time m)) as [E|E].
    + left. symmetry. eapply nodup_map_inj; eauto.
    + right. change bs with (snd (fst (st2, bs, rest2))). rewrite <- Et. apply IH.
      * apply nodup_map_filter. exact Nl.
      * assert ((length rest < length live)%nat).
        { apply filter_length_lt with (x := m); [exact Hm|]. rewrite Z.eqb_refl. reflexivity. }
        pose proof (filter_len_le (fun x => negb (is_stale oldest hw x)) h). fold live in H0. lia.
      * apply filter_In. split; [exact Hbl|]. apply negb_true_iff, Z.eqb_neq. exact E.
      * exact Hs.
Qed.

Lemma take_historic_nodup n : forall h oldest hw, NoDup (map b_time h) -> NoDup (map b_time (snd (take_historic n h oldest hw))).
Proof.
  induction n as [|n IH]; intros h oldest hw Hn; simpl; [exact Hn|].
  unfold pop_historic. set (live := filter (fun x => negb (is_stale oldest hw x)) h).
  assert (Nl : NoDup (map b_time live)) by (apply nodup_map_filter; exact Hn).
  destruct (min_bucket live None) as [m|]; simpl; [|exact Nl].
  set (rest := filter (fun x => negb (b_time x =? b_time m)) live).
  specialize (IH rest oldest hw (nodup_map_filter _ _ _ Nl)).
  destruct (take_historic n rest oldest hw) as [[st2 bs] rest2]. exact IH.
Qed.

(* ---- the inserters ---- *)
Lemma ginsert_queue g b q ok nh hw : g_queue g = b :: q -> g_queue (fst (ginsert g ok nh hw)) = q.
Proof.
  intros Hq. unfold ginsert. rewrite Hq. destruct (take_historic nh (g_hist g) (oldest_time g) hw) as [[st hs] rest]. reflexivity.
Qed.

Lemma ginsert_takes_historic g b q nh hw hb r :
  g_queue g = b :: q -> In hb (g_hist g) -> NoDup (map b_time (g_hist g)) -> is_stale (oldest_time g) hw hb = false ->
  (length (g_hist g) <= nh)%nat -> In r (b_contrib hb) -> In (GvAck r) (snd (ginsert g true nh hw)).
Proof.
  intros Hq Hb Hn Hs Hl Hr. unfold ginsert. rewrite Hq.
  pose proof (take_historic_all nh (g_hist g) (oldest_time g) hw hb Hn Hl Hb Hs) as Hin.
  destruct (take_historic nh (g_hist g) (oldest_time g) hw) as [[st hs] rest]. simpl in Hin. simpl.
  apply in_or_app. right. right. apply in_or_app. right.
  apply in_flat_map. exists hb. split; [exact Hin|]. apply in_map_iff. exists r. split; [reflexivity|exact Hr].
Qed.

Lemma grun_app a : forall g b, grun g (a ++ b) = (let '(g1, e1) := grun g a in let '(g2, e2) := grun g1 b in (g2, e1 ++ e2)).
Proof.
  induction a as [|o r IH]; intros g b; simpl; [destruct (grun g b); reflexivity|].
  destruct (gstep g o) as [g1 e1]. rewrite IH. destruct (grun g1 r) as [g2 e2]. destruct (grun g2 b) as [g3 e3].
  rewrite app_assoc. reflexivity.
Qed.

Lemma inserts_ack_queue n : forall g nh hw b r,
  (length (g_queue g) <= n)%nat -> In b (g_queue g) -> In r (b_contrib b) ->
  In (GvAck r) (snd (grun g (repeat (GInsert true nh hw) n))).
Proof.
  induction n as [|n IH]; intros g nh hw b r Hl Hb Hr.
  - destruct (g_queue g); [destruct Hb|simpl in Hl; lia].
  - destruct (g_queue g) as [|b0 q] eqn:Eq; [destruct Hb|]. cbn [repeat grun gstep].
    destruct (ginsert g true nh hw) as [g1 e1] eqn:Ei.
    destruct (grun g1 (repeat (GInsert true nh hw) n)) as [g2 e2] eqn:Er. simpl.
    apply in_or_app. destruct Hb as [->|Hb].
    + left. assert (binv_free : True) by exact I.
      unfold ginsert in Ei. rewrite Eq in Ei.
      destruct (take_historic nh (g_hist g) (oldest_time g) hw) as [[st hs] rest]. inversion Ei; subst.
      apply in_or_app. right. right. cbn [flat_map]. apply in_or_app. left.
      apply in_map_iff. exists r. split; [reflexivity|exact Hr].
    + right. change e2 with (snd (g2, e2)). rewrite <- Er. apply IH with (b := b); [| |exact Hr].
      * pose proof (ginsert_queue g b0 q true nh hw Eq) as Hq. rewrite Ei in Hq. simpl in Hq. rewrite Hq. simpl in Hl. lia.
      * pose proof (ginsert_queue g b0 q true nh hw Eq) as Hq. rewrite Ei in Hq. simpl in Hq. rewrite Hq. exact Hb.
Qed.

Lemma gtick_flush g T sw n : 0 <= sw -> g_down g = false ->
  (forall b, In b (g_recent g) -> u32 (b_time b + sw) < T) -> (length (g_recent g) <= n)%nat ->
  gtick g T sw (repeat true n) =
  (set_queue (set_recent g (fresh (u32 (T - sw)) (Z.to_nat (sw + future_window)))) (g_queue g ++ filter (own (g_rk g)) (g_recent g)), []).
Proof.
  intros Hsw Hd Hr Hn. unfold gtick. rewrite (advance_all _ _ _ Hsw Hr).
  rewrite tick_ready_all; [reflexivity|exact Hd|exact Hn].
Qed.

Lemma file_hist_length l t r : (length (file_hist l t r) <= S (length l))%nat.
Proof. induction l as [|b rest IH]; simpl; [lia|]. destruct (b_time b =? t); simpl; lia. Qed.

Lemma file_hist_nodup l t r : NoDup (map b_time l) -> NoDup (map b_time (file_hist l t r)).
Proof.
  induction l as [|b rest IH]; simpl; intros Hn.
  - constructor; [intros []|constructor].
  - inversion Hn as [|? ? Hni Hnr]; subst. destruct (b_time b =? t) eqn:E; simpl.
    + constructor; assumption.
    + constructor; [|auto]. intros Hin. apply Z.eqb_neq in E.
      assert (G : forall l0, In (b_time b) (map b_time (file_hist l0 t r)) -> In (b_time b) (map b_time l0) \/ b_time b = t).
      { induction l0 as [|y ys IHy]; simpl.
        - intros [H|[]]; right; symmetry; exact H.
        - destruct (b_time y =? t); simpl; intros [H|H]; auto. destruct (IHy H); auto. }
      destruct (G _ Hin); [contradiction|contradiction].
Qed.

(* ---- one replica serves one historic request ---- *)
Lemma wn_S sw : 0 <= sw -> Z.to_nat (sw + future_window) = S (Z.to_nat (sw + 3)).
Proof. unfold future_window. lia. Qed.

Theorem serve_acks g r sw hw g' ev :
  ginv g -> g_down g = false -> 1 <= g_rk g <= 3 -> 0 <= sw -> NoDup (map b_time (g_hist g)) ->
  r_hist r = true ->
  0 <= r_time r -> sw <= flush_time g sw -> flush_time g sw + sw + 8 < two32 ->
  r_time r + 2 <= flush_time g sw + 3 ->
  flush_time g sw + 4 <= r_time r + hw ->
  grun g (serve_ops g r sw hw) = (g', ev) ->
  In (GvAck r) ev /\ In (r_key r) (store_of ev).
Proof.
  intros Gi Hd Hrk Hsw Hnd Hh Ht0 Hsw1 Hwrap Hfut Hwin H.
  assert (Hack : In (GvAck r) ev).
  2:{ split; [exact Hack|]. destruct (grun_inv _ _ _ _ Gi H) as [_ A]. apply acks_in_store; [apply A|exact Hack]. }
  set (t := r_time r) in *. set (t1 := flush_time g sw) in *. set (rk := g_rk g) in *.
  set (wn := Z.to_nat (sw + future_window)) in *.
  set (f1 := t1 - sw).
  assert (Ef1 : u32 (t1 - sw) = f1) by (apply u32_id; unfold is_u32, f1, two32 in *; lia).
  unfold serve_ops in H. fold t1 in H. fold wn in H.
  rewrite grun_app in H. cbn [grun gstep] in H.
  (* first tick: the whole window is flushed *)
  rewrite (gtick_flush g t1 sw (length (g_recent g)) Hsw Hd) in H; [|intros b Hb; apply flush_time_ready; exact Hb|lia].
  fold wn in H. rewrite Ef1 in H.
  set (g1 := set_queue (set_recent g (fresh f1 wn)) (g_queue g ++ filter (own (g_rk g)) (g_recent g))) in *.
  assert (Ewn : wn = S (Z.to_nat (sw + 3))) by (apply wn_S; exact Hsw).
  assert (Eo1 : oldest_time g1 = f1).
  { rewrite (oldest_fresh g1 f1 (Z.to_nat (sw + 3))); [apply u32_id; unfold is_u32, f1, two32 in *; lia|]. unfold g1; simpl. rewrite Ewn. reflexivity. }
  assert (En1 : newest_time g1 = f1 + sw + 3).
  { rewrite (newest_fresh g1 f1 (Z.to_nat (sw + 3))); [|unfold g1; simpl; rewrite Ewn; reflexivity].
    rewrite Z2Nat.id by lia. rewrite u32_id; [lia|]. unfold is_u32, f1, two32 in *; lia. }
  (* the request is filed *)
  destruct (round_to_our_time_total t rk) as (r0 & Er0 & Hmod & Hr0); [exact Ht0|unfold two32 in *; lia|exact Hrk|].
  assert (Hfile : file_bucket true t f1 (f1 + sw + 3) hw rk = Some (if r0 <? f1 then FHistoric t else FRecent r0)).
  { unfold file_bucket. rewrite Er0. unfold file_decision.
    assert (E1 : (f1 + sw + 3 <? r0) = false) by (apply Z.ltb_ge; unfold f1; lia). rewrite E1.
    assert (E2 : ((hw <=? f1) && (r0 <? u32 (f1 - hw))) = false).
    { destruct (hw <=? f1) eqn:Eh; [|reflexivity]. apply Z.leb_le in Eh. simpl. apply Z.ltb_ge.
      destruct (Z_le_gt_dec 0 hw) as [Hp|Hp].
      - rewrite u32_id; [unfold f1; lia|]. unfold is_u32, f1, two32 in *; lia.
      - (* a negative window cannot pass the premise t1+4 <= t+hw together with t+2 <= t1+3 *) lia. }
    rewrite E2. reflexivity. }
  unfold grecv in H. cbn [f_decodable f_shard_ok f_old_agent ok_flags negb andb] in H.
  assert (Hd1 : g_down g1 = false) by exact Hd. rewrite Hd1 in H.
  change (r_time r) with t in H. rewrite Hh, Eo1, En1 in H. change (g_rk g1) with rk in H. rewrite Hfile in H.
  (* facts about the fresh window *)
  assert (Hwin1 : forall i, (i < wn)%nat -> In (empty_bucket (f1 + Z.of_nat i)) (fresh f1 wn)).
  { intros i Hi. apply fresh_in. exists i. split; [exact Hi|]. rewrite u32_id; [reflexivity|]. unfold is_u32, f1, two32 in *. lia. }
  assert (Htimes : forall b, In b (fresh f1 wn) -> f1 <= b_time b <= f1 + sw + 3).
  { intros b Hb. apply fresh_in in Hb. destruct Hb as (i & Hi & ->). simpl. rewrite u32_id; [lia|]. unfold is_u32, f1, two32 in *. lia. }
  destruct (r0 <? f1) eqn:Elate.
  - (* historic queue *)
    apply Z.ltb_lt in Elate.
    set (g2 := set_ghist g1 (file_hist (g_hist g1) t r)) in *.
    cbn [grun gstep] in H.
    rewrite (gtick_flush g2 (t1 + sw + 4) sw wn Hsw Hd) in H.
    2:{ intros b Hb. specialize (Htimes b Hb). rewrite u32_id; [unfold f1 in *; lia|]. unfold is_u32, f1, two32 in *. lia. }
    2:{ unfold g2, g1; simpl. unfold fresh. rewrite map_length, seq_length. lia. }
    set (g3 := set_queue _ _) in H.
    destruct (grun g3 _) as [g4 e4] eqn:E4.
    assert (Hev : ev = e4) by (inversion H; reflexivity). rewrite Hev. clear H.
    change e4 with (snd (g4, e4)). rewrite <- E4.
    (* an own bucket of the fresh window is on the conveyor *)
    destruct (round_to_our_time_total f1 rk) as (r1 & Er1 & Hmod1 & Hr1); [unfold f1; lia|unfold f1, two32 in *; lia|exact Hrk|].
    assert (Hown : In (empty_bucket r1) (g_queue g3)).
    { unfold g3; simpl. apply in_or_app. right. apply filter_In. split.
      - replace r1 with (f1 + Z.of_nat (Z.to_nat (r1 - f1))) by lia. apply Hwin1. lia.
      - unfold own, ticker_inserts. simpl. apply Z.eqb_eq. rewrite Hmod1. symmetry. apply u32_id. unfold is_u32, two32. fold rk. lia. }
    destruct (g_queue g3) as [|b0 q0] eqn:Eq3; [destruct Hown|].
    destruct (file_hist_has (g_hist g1) t r) as (hb & Hhb & Hhbt & Hhbr).
    assert (Eh3 : g_hist g3 = file_hist (g_hist g) t r) by reflexivity.
    assert (Eo3 : oldest_time g3 = t1 + 4).
    { rewrite (oldest_fresh g3 (u32 (t1 + sw + 4 - sw)) (Z.to_nat (sw + 3))); [|unfold g3; simpl; fold wn; rewrite Ewn; reflexivity].
      assert (Ex : u32 (t1 + sw + 4 - sw) = t1 + 4).
      { replace (t1 + sw + 4 - sw) with (t1 + 4) by lia. apply u32_id. unfold is_u32, two32 in *. lia. }
      rewrite Ex. apply u32_id. unfold is_u32, two32 in *. lia. }
    cbn [repeat]. destruct (length (g_queue g) + length (g_recent g) + wn)%nat as [|nq] eqn:Enq; [lia|].
    cbn [repeat grun gstep].
    destruct (ginsert g3 true (S (length (g_hist g))) hw) as [g5 e5] eqn:E5.
    destruct (grun g5 _) as [g6 e6]. simpl. apply in_or_app. left.
    change e5 with (snd (g5, e5)). rewrite <- E5.
    apply ginsert_takes_historic with (b := b0) (q := q0) (hb := hb); [exact Eq3| | | | |exact Hhbr].
    + rewrite Eh3. exact Hhb.
    + rewrite Eh3. apply file_hist_nodup. exact Hnd.
    + unfold is_stale. rewrite Eo3, Hhbt. destruct (hw <=? t1 + 4) eqn:Eh; [|reflexivity]. apply Z.leb_le in Eh. simpl.
      apply Z.ltb_ge. destruct (Z_le_gt_dec 0 hw) as [Hp|Hp]; [|lia]. rewrite u32_id; [lia|]. unfold is_u32, two32 in *. lia.
    + rewrite Eh3. apply file_hist_length.
  - (* a bucket of the fresh recent window *)
    apply Z.ltb_ge in Elate.
    set (g2 := set_recent g1 (file_recent (g_recent g1) r0 r)) in *.
    cbn [grun gstep] in H.
    assert (Htimes2 : forall b, In b (g_recent g2) -> f1 <= b_time b <= f1 + sw + 3).
    { intros b Hb. assert (Hm : In (b_time b) (map b_time (g_recent g2))) by (apply in_map; exact Hb).
      unfold g2 in Hm; simpl in Hm. rewrite file_recent_times in Hm. apply in_map_iff in Hm. destruct Hm as (x & <- & Hx). apply Htimes. exact Hx. }
    rewrite (gtick_flush g2 (t1 + sw + 4) sw wn Hsw Hd) in H.
    2:{ intros b Hb. specialize (Htimes2 b Hb). rewrite u32_id; [unfold f1 in *; lia|]. unfold is_u32, f1, two32 in *. lia. }
    2:{ unfold g2, g1; simpl. rewrite <- (map_length b_time), file_recent_times, map_length. unfold fresh. rewrite map_length, seq_length. lia. }
    set (g3 := set_queue _ _) in H.
    destruct (grun g3 _) as [g4 e4] eqn:E4.
    assert (Hev : ev = e4) by (inversion H; reflexivity). rewrite Hev. clear H.
    change e4 with (snd (g4, e4)). rewrite <- E4.
    destruct (file_recent_has (fresh f1 wn) r0 r) as (b' & Hb' & Hb't & Hb'r).
    { exists (empty_bucket (f1 + Z.of_nat (Z.to_nat (r0 - f1)))). split; [apply Hwin1; unfold f1 in *; lia|]. simpl. lia. }
    apply inserts_ack_queue with (b := b'); [| |exact Hb'r].
    + unfold g3; simpl. rewrite app_length.
      pose proof (filter_len_le (own (g_rk g)) (g_recent g)). pose proof (filter_len_le (own (g_rk g)) (file_recent (fresh f1 wn) r0 r)).
      assert (length (file_recent (fresh f1 wn) r0 r) = wn).
      { rewrite <- (map_length b_time), file_recent_times, map_length. unfold fresh. rewrite map_length, seq_length. reflexivity. }
      rewrite app_length. lia.
    + unfold g3; simpl. apply in_or_app. right. apply filter_In. split; [exact Hb'|].
      unfold own, ticker_inserts. rewrite Hb't. apply Z.eqb_eq. rewrite Hmod. symmetry. apply u32_id. unfold is_u32, two32. fold rk. lia.
Qed.

(* ---- lifting to the composed system ---- *)
Lemma nth_replace_same {A} i (l : list A) x y : nth_error l i = Some x -> nth_error (replace_nth i l y) i = Some y.
Proof. revert i; induction l as [|z r IH]; intros [|i] H; simpl in *; try discriminate; [reflexivity|apply IH; exact H]. Qed.

Lemma replace_replace {A} i (l : list A) x y : replace_nth i (replace_nth i l x) y = replace_nth i l y.
Proof. revert i; induction l as [|z r IH]; intros [|i]; simpl; try reflexivity. rewrite IH. reflexivity. Qed.

Lemma replace_same {A} i (l : list A) x : nth_error l i = Some x -> replace_nth i l x = l.
Proof. revert i; induction l as [|z r IH]; intros [|i] H; simpl in *; try discriminate; [inversion H; reflexivity|rewrite IH; auto]. Qed.

Lemma srun_agg ops : forall s i g g' ev, nth_error (s_aggs s) i = Some g -> grun g ops = (g', ev) ->
  srun s (map (SAgg i) ops) =
  {| s_agent := s_agent s; s_aggs := replace_nth i (s_aggs s) g'; s_alog := s_alog s; s_glog := s_glog s ++ ev |}.
Proof.
  induction ops as [|o r IH]; intros s i g g' ev Hn H; simpl in H.
  - inversion H; subst. simpl. rewrite app_nil_r, (replace_same _ _ _ Hn). destruct s; reflexivity.
  - destruct (gstep g o) as [g1 e1] eqn:Es. destruct (grun g1 r) as [g2 e2] eqn:Er. inversion H; subst; clear H.
    cbn [map srun fold_left]. unfold sstep_fun at 2. rewrite Hn, Es. fold (srun).
    change (fold_left sstep_fun (map (SAgg i) r) ?x) with (srun x (map (SAgg i) r)).
    erewrite IH; [|simpl; eapply nth_replace_same; eauto|exact Er]. simpl.
    rewrite replace_replace, app_assoc. reflexivity.
Qed.

Lemma sreach_agg s0 ops : forall s i, sreach s0 s -> sreach s0 (srun s (map (SAgg i) ops)).
Proof.
  induction ops as [|o r IH]; intros s i R; simpl; [exact R|].
  apply IH. unfold sstep_fun. destruct (nth_error (s_aggs s) i) as [g|] eqn:En; [|exact R].
  destruct (gstep g o) as [g' ev] eqn:Es. eapply SR_step; [exact R|]. eapply SS_agg; eauto.
Qed.

(* one round of the fault-free continuation delivers the second the historic sender holds *)
Theorem round_delivers s0 s i g it now sw hw :
  sreach s0 s -> sinv s ->
  nth_error (s_aggs s) i = Some g -> g_down g = false -> 1 <= g_rk g <= 3 -> NoDup (map b_time (g_hist g)) ->
  find_item (it_key it) (a_out (s_agent s)) = Some it ->
  out_of_window now (it_time it) hw = false -> (it_data it = true \/ a_disk_on (s_agent s) = true) ->
  0 <= sw -> 0 <= it_time it -> sw <= flush_time g sw -> flush_time g sw + sw + 8 < two32 ->
  it_time it + 2 <= flush_time g sw + 3 ->
  flush_time g sw + 4 <= it_time it + hw ->
  let s' := srun s (round_ops s i it now sw hw) in
  sreach s0 s' /\ In (it_key it) (store_of (s_glog s')) /\ In (EvAck (it_key it)) (s_alog s') /\
  length (round_ops s i it now sw hw) = round_len g sw.
Proof.
  intros R Inv Hn Hd Hrk Hnd Hf How Hdata Hsw Ht0 Hsw1 Hwrap Hfut Hwin s'.
  destruct Inv as (W & A & K & G & S).
  assert (Gi : ginv g) by (apply G; eapply nth_error_In; eauto).
  set (r := hist_request it (length (s_glog s))).
  destruct (grun g (serve_ops g r sw hw)) as [g' ev] eqn:Eg.
  destruct (serve_acks g r sw hw g' ev Gi Hd Hrk Hsw Hnd eq_refl Ht0 Hsw1 Hwrap Hfut Hwin Eg) as [Hack Hst].
  unfold s', round_ops. rewrite Hn. fold r. unfold srun. rewrite fold_left_app. fold (srun s (map (SAgg i) (serve_ops g r sw hw))).
  rewrite (srun_agg _ _ _ _ _ _ Hn Eg).
  set (s1 := {| s_agent := s_agent s; s_aggs := replace_nth i (s_aggs s) g'; s_alog := s_alog s; s_glog := s_glog s ++ ev |}).
  assert (R1 : sreach s0 s1).
  { unfold s1. rewrite <- (srun_agg _ _ _ _ _ _ Hn Eg). apply sreach_agg. exact R. }
  cbn [fold_left]. unfold sstep_fun.
  destruct (astep (s_agent s1) (OHistIter (it_key it) now hw ADiscard)) as [[a' ev'] ob] eqn:Ea.
  assert (Hev : In (EvAck (it_key it)) ev').
  { simpl in Ea. unfold s1 in Ea; simpl in Ea. rewrite Hf, How in Ea.
    destruct (negb (it_data it) && negb (a_disk_on (s_agent s))) eqn:E.
    - apply andb_true_iff in E. destruct E as [E1 E2]. apply negb_true_iff in E1. apply negb_true_iff in E2. destruct Hdata; congruence.
    - inversion Ea; subst. right. left. reflexivity. }
  split; [|split; [|split]].
  - eapply SR_step; [exact R1|]. eapply SS_agent; [|exact Ea]. simpl. exists r. split; [reflexivity|].
    left. unfold s1; simpl. apply in_or_app. right. exact Hack.
  - simpl. rewrite store_of_app. apply in_or_app. right. exact Hst.
  - simpl. apply in_or_app. right. exact Hev.
  - rewrite app_length, map_length. unfold serve_ops, round_len. cbn [length app]. rewrite repeat_length. lia.
Qed.

(* the premises about the replica hold in every reachable state: the historic queue has one bucket per second *)
Lemma tick_ready_hist rd : forall g room, g_hist (fst (tick_ready g rd room)) = g_hist g.
Proof.
  induction rd as [|b rest IH]; intros g room; simpl; [reflexivity|].
  destruct (negb (ticker_inserts (b_time b) (g_rk g))); [apply IH|].
  destruct (g_down g); [reflexivity|].
  destruct room as [|[|] room']; simpl.
  - specialize (IH g []). destruct (tick_ready g rest []); exact IH.
  - rewrite IH. reflexivity.
  - specialize (IH g room'). destruct (tick_ready g rest room'); exact IH.
Qed.

Lemma gstep_hist_nodup g o : NoDup (map b_time (g_hist g)) -> NoDup (map b_time (g_hist (fst (gstep g o)))).
Proof.
  intros H. destruct o as [r f d hw|now sw room|ok n hw|rid| |now sw]; simpl.
  - unfold grecv. destruct (negb (f_decodable f)); [exact H|]. destruct (d && f_old_agent f); [exact H|].
    destruct (negb (f_shard_ok f)); [exact H|]. destruct (g_down g); [exact H|].
    destruct (file_bucket _ _ _ _ _ _) as [[| |t|t]|]; simpl; try exact H. apply file_hist_nodup. exact H.
  - unfold gtick. destruct (advance_recent (g_recent g) now sw) as [rd keep]. rewrite tick_ready_hist. exact H.
  - unfold ginsert. destruct (g_queue g) as [|b q]; [exact H|].
    pose proof (take_historic_nodup n (g_hist g) (oldest_time g) hw H) as Hn.
    destruct (take_historic n (g_hist g) (oldest_time g) hw) as [[st hs] rest]. exact Hn.
  - rewrite map_map. simpl. exact H.
  - exact H.
  - constructor.
Qed.

Definition hinv (s : sys) : Prop := forall g, In g (s_aggs s) -> NoDup (map b_time (g_hist g)).

Lemma sreach_hinv d now sw s : sreach (sys_init d now sw) s -> hinv s.
Proof.
  intros R. induction R as [|s o s' R IH St].
  - intros g [<-|[<-|[<-|[]]]]; constructor.
  - inversion St; subst; [exact IH|]. intros x Hx. simpl in Hx. apply replace_nth_in in Hx. destruct Hx as [->|Hx]; [|apply IH; exact Hx].
    pose proof (gstep_hist_nodup g o0 (IH g (nth_error_In _ _ H))) as Hn. rewrite H0 in Hn. exact Hn.
Qed.

(* bounded progress from every reachable state, for the second the historic sender holds *)
Theorem drain_round_progress :
  forall disk_on now0 sw0 s i g it now sw hw,
  sreach (sys_init disk_on now0 sw0) s ->
  nth_error (s_aggs s) i = Some g -> g_down g = false -> 1 <= g_rk g <= 3 ->
  find_item (it_key it) (a_out (s_agent s)) = Some it ->
  out_of_window now (it_time it) hw = false -> (it_data it = true \/ a_disk_on (s_agent s) = true) ->
  0 <= sw -> 0 <= it_time it -> sw <= flush_time g sw -> flush_time g sw + sw + 8 < two32 ->
  it_time it + 2 <= flush_time g sw + 3 ->
  flush_time g sw + 4 <= it_time it + hw ->
  let s' := srun s (round_ops s i it now sw hw) in
  sreach (sys_init disk_on now0 sw0) s' /\ In (it_key it) (store_of (s_glog s')) /\ In (EvAck (it_key it)) (s_alog s') /\
  length (round_ops s i it now sw hw) = round_len g sw.
Proof.
  intros d now0 sw0 s i g it now sw hw R Hn Hd Hrk Hf How Hdata Hsw Ht0 Hsw1 Hwrap Hfut Hwin.
  apply round_delivers; auto.
  - apply (sreach_inv _ _ (sinv_init d now0 sw0) R).
  - apply (sreach_hinv _ _ _ _ R). eapply nth_error_In; eauto.
Qed.

(* the executable continuation [drain], first round: the second at the head of the historic senders' hands *)
Theorem drain_first_round :
  forall disk_on now0 sw0 s g it rest clock sw hw,
  sreach (sys_init disk_on now0 sw0) s ->
  a_out (s_agent s) = it :: rest ->
  nth_error (s_aggs s) (Z.to_nat (primary_shift (it_time it))) = Some g -> g_down g = false -> 1 <= g_rk g <= 3 ->
  out_of_window (clock O) (it_time it) hw = false -> (it_data it = true \/ a_disk_on (s_agent s) = true) ->
  0 <= sw -> 0 <= it_time it -> sw <= flush_time g sw -> flush_time g sw + sw + 8 < two32 ->
  it_time it + 2 <= flush_time g sw + 3 ->
  flush_time g sw + 4 <= it_time it + hw ->
  let s' := drain s clock sw hw 1 in
  sreach (sys_init disk_on now0 sw0) s' /\ In (it_key it) (store_of (s_glog s')) /\ In (EvAck (it_key it)) (s_alog s').
Proof.
  intros d now0 sw0 s g it rest clock sw hw R Ho Hn Hd Hrk How Hdata Hsw Ht0 Hsw1 Hwrap Hfut Hwin.
  assert (Hf : find_item (it_key it) (a_out (s_agent s)) = Some it).
  { rewrite Ho. unfold find_item. simpl. unfold item_eqk. rewrite Nat.eqb_refl. reflexivity. }
  pose proof (drain_round_progress d now0 sw0 s _ g it (clock O) sw hw R Hn Hd Hrk Hf How Hdata Hsw Ht0 Hsw1 Hwrap Hfut Hwin) as P.
  cbn zeta in P. destruct P as (P1 & P2 & P3 & _).
  assert (Es : {| s_agent := s_agent s; s_aggs := s_aggs s; s_alog := s_alog s; s_glog := s_glog s |} = s) by (destruct s; reflexivity).
  cbn [drain]. unfold next_item. rewrite Ho. rewrite Es. cbn zeta. auto.
Qed.

(* ---- the unbounded statement ---- *)
Definition run := nat -> sys.
Definition is_run (s0 : sys) (ru : run) : Prop := ru O = s0 /\ forall n, ru (S n) = ru n \/ exists o, sstep (ru n) o (ru (S n)).

(* Fairness as needed for "eventually inserted": whenever a second is buffered, at some later point the historic conveyor
   holds it while it is still inside the window, a replica is up with its clock within the bounds of the progress theorem,
   and from there on faults stop for the length of one round (the run continues with the fault-free round). *)
Definition fair (ru : run) : Prop :=
  forall n k, present (s_agent (ru n)) k ->
  exists m i g it now sw hw m',
    (n <= m)%nat /\ it_key it = k /\
    nth_error (s_aggs (ru m)) i = Some g /\ g_down g = false /\ 1 <= g_rk g <= 3 /\
    find_item (it_key it) (a_out (s_agent (ru m))) = Some it /\
    out_of_window now (it_time it) hw = false /\ (it_data it = true \/ a_disk_on (s_agent (ru m)) = true) /\
    0 <= sw /\ 0 <= it_time it /\ sw <= flush_time g sw /\ flush_time g sw + sw + 8 < two32 /\
    it_time it + 2 <= flush_time g sw + 3 /\ flush_time g sw + 4 <= it_time it + hw /\
    ru m' = srun (ru m) (round_ops (ru m) i it now sw hw).

Lemma is_run_reach s0 ru : is_run s0 ru -> forall n, sreach s0 (ru n).
Proof.
  intros [H0 Hs] n. induction n as [|n IH]; [rewrite H0; apply SR_init|].
  destruct (Hs n) as [E|(o & St)]; [rewrite E; exact IH|eapply SR_step; eauto].
Qed.

Theorem fair_runs_deliver :
  forall disk_on now0 sw0 ru, is_run (sys_init disk_on now0 sw0) ru -> fair ru ->
  forall n k, present (s_agent (ru n)) k -> exists m', In k (store_of (s_glog (ru m'))).
Proof.
  intros d now0 sw0 ru Hr Hf n k Hp.
  destruct (Hf n k Hp) as (m & i & g & it & now & sw & hw & m' & _ & Hk & Hn & Hd & Hrk & Hfi & How & Hdata & Hsw & Ht0 & Hsw1 & Hwrap & Hfut & Hwin & Em).
  exists m'. rewrite Em, <- Hk.
  pose proof (drain_round_progress d now0 sw0 (ru m) i g it now sw hw (is_run_reach _ _ Hr m) Hn Hd Hrk Hfi How Hdata Hsw Ht0 Hsw1 Hwrap Hfut Hwin) as P.
  cbn zeta in P. tauto.
Qed.
