(* C24 — executable model of internal/api/pcache.go (pointsCache + invalidatedSecondsCache).

   Atomic steps = the critical sections of the Go code (DESIGN 3.5):
     OLookup     loadCached (RLock section): entry/range lookup, lru store, checkInvalidationLocked
     OLoadStart  the `loadedAtNano := c.now().UnixNano()` read of get after a miss (or avoidCache);
                 the value lives in get's stack frame until the locked section — modelled as a
                 pending load named by an id chosen by the environment
     OStore      the Lock section of get: eviction loop, entry creation, lru, size accounting, rows[tr] = …
     ODrop       get returns without storing (loader error or avoidCache)
     OInvalidate invalidate: updateTimeLocked for every second, then invalidateLocked (purge)
   Time is an input: every value returned by a c.now() call is a field of the op (nanoseconds).
   Go map iteration order (evictLocked's 100-key sample, invalidateLocked's 100-key sample) is an
   explicit input: the victims evicted / the purgeable keys that survived; [r_acc] says whether the
   recorded choice is one the code can make.
   Rows are abstract: a load result is (rid, n) = (identity of the loader call, len(rows)). *)
From Coq Require Import ZArith List Bool.
From SH Require Import Common.Wrap.
Import ListNotations.
Open Scope Z_scope.

(* ---- constants of tscache.go / pcache.go (compared with the compiled values by Corr.ok) ---- *)
Definition invalidateFromNs : Z := -172800000000000.   (* invalidateFrom = -48h *)
Definition lingerNs : Z := 15000000000.                (* invalidateLinger = 15s *)
Definition maxEvictionSampleSize : Z := 100.
Definition step0 : Z := 3600.
Definition step1 : Z := 60.
Definition step2 : Z := 1.
Definition nanos : Z := 1000000000.
Definition model_consts : list Z := [invalidateFromNs; lingerNs; maxEvictionSampleSize; step0; step1; step2].

(* ---- lod.go: mathDiv / roundTime, written as the Go code (truncating / and %) ---- *)
Definition mathDiv (a b : Z) : Z :=
  let quo := Z.quot a b in
  if Bool.eqb (0 <=? a) (0 <=? b) || (Z.rem a b =? 0) then quo else quo - 1.
Definition roundTime (t step off : Z) : Z := mathDiv (t + off) step * step - off.

(* ---- Go maps as association lists (first binding wins; set replaces in place or appends) ---- *)
Section Assoc.
  Context {K V : Type}.
  Variable keqb : K -> K -> bool.
  Fixpoint afind (m : list (K * V)) (k : K) : option V :=
    match m with
    | [] => None
    | (k', v) :: m' => if keqb k' k then Some v else afind m' k
    end.
  Fixpoint aset (m : list (K * V)) (k : K) (v : V) : list (K * V) :=
    match m with
    | [] => [(k, v)]
    | (k', v') :: m' => if keqb k' k then (k', v) :: m' else (k', v') :: aset m' k v
    end.
  Fixpoint adel (m : list (K * V)) (k : K) : list (K * V) :=
    match m with
    | [] => []
    | (k', v') :: m' => if keqb k' k then m' else (k', v') :: adel m' k
    end.
End Assoc.

Definition imap := list (Z * Z).
Definition zlen {A} (l : list A) : Z := Z.of_nat (length l).
Definition memZ (x : Z) (l : list Z) : bool := existsb (Z.eqb x) l.
Definition range_eqb (a b : Z * Z) : bool := (fst a =? fst b) && (snd a =? snd b).

(* ---- invalidatedSecondsCache ---- *)

(* updateTimeLocked, one level:  if last, ok := m[r]; !ok || at > last { m[r] = at } *)
Definition upd_max (m : imap) (r at_ : Z) : imap :=
  match afind Z.eqb m r with
  | Some last => if last <? at_ then aset Z.eqb m r at_ else m
  | None => aset Z.eqb m r at_
  end.

(* `ok && loadAt <= invalidatedAtNano + int64(invalidateLinger)` (int64 addition with its wrap) *)
Definition blocked (m : imap) (loadAt i : Z) : bool :=
  match afind Z.eqb m i with
  | Some inv => loadAt <=? i64 (inv + lingerNs)
  | None => false
  end.

(* for i := a; …; i += step { if blocked { return false } } return true — n iterations *)
Fixpoint scan (m : imap) (loadAt i step : Z) (n : nat) : bool :=
  match n with
  | O => true
  | S n' => if blocked m loadAt i then false else scan m loadAt (i + step) step n'
  end.
(* iteration counts of  `for i := a; i <= b; i += step`  and  `for i := a; i < b; i += step` *)
Definition cnt_le (a b step : Z) : nat := if b <? a then O else Z.to_nat ((b - a) / step + 1).
Definition cnt_lt (a b step : Z) : nat := if b <=? a then O else Z.to_nat ((b - a + step - 1) / step).

(* checkInvalidationMapLocked, ix = 2 (seconds) *)
Definition chk2 (m2 : imap) (loadAt from to : Z) : bool :=
  scan m2 loadAt from step2 (cnt_le from to step2).

(* checkInvalidationMapLocked, ix < 2 : the two edge sub-ranges go one level down, the cells
   strictly between the edge cells are looked up at this level *)
Definition chk_level (step : Z) (m : imap) (next : Z -> Z -> bool) (off loadAt from to : Z) : bool :=
  let fromR := roundTime from step off in
  let toR := roundTime to step off in
  let fromNext := if to <? fromR + step then to else fromR + step in
  let toPrev := if toR <? from then from else toR in
  next from fromNext && next toPrev to &&
  scan m loadAt (fromR + step) step (cnt_lt (fromR + step) toR step).

Definition chk1 (m1 m2 : imap) (off loadAt : Z) : Z -> Z -> bool :=
  chk_level step1 m1 (chk2 m2 loadAt) off loadAt.
Definition chk0 (m0 m1 m2 : imap) (off loadAt : Z) : Z -> Z -> bool :=
  chk_level step0 m0 (chk1 m1 m2 off loadAt) off loadAt.

(* floor(ns / 1e9): Time.Unix() of time.Unix(0, ns) *)
Definition unix_of (ns : Z) : Z := ns / nanos.

(* checkInvalidationLocked; now = the c.now() it reads, in ns *)
Definition check_invalidation (m0 m1 m2 : imap) (off now loadAt from to : Z) : bool :=
  let imm := now + invalidateFromNs in
  let from' := if from * nanos <? imm then unix_of imm else from in
  if to * nanos <? imm then true else chk0 m0 m1 m2 off loadAt from' to.

(* ---- pointsCache ---- *)
Record crow := { cr_rid : Z; cr_n : Z; cr_loadAt : Z }.
Record entry := { e_lru : Z; e_rows : list ((Z * Z) * crow); e_rowsSize : Z }.
Record pend := { p_key : Z; p_from : Z; p_to : Z; p_loadAt : Z }.
Record st := {
  s_cache : list (Z * entry);
  s_size : Z;
  s_m0 : imap; s_m1 : imap; s_m2 : imap;
  s_pend : list (Z * pend)
}.
Record cfg := { c_max : Z; c_off : Z }.

Definition init : st := {| s_cache := []; s_size := 0; s_m0 := []; s_m1 := []; s_m2 := []; s_pend := [] |}.

Inductive op :=
| OLookup (viaget : bool) (k from to t_lru t_chk : Z)
| OLoadStart (id k from to t_load : Z)
| OStore (id n rid t_lru : Z) (victims : list Z)
| ODrop (id : Z)
| OInvalidate (secs : list Z) (t_at t_purge : Z) (surv0 surv1 surv2 : list Z).

Record res := { r_found : option crow; r_valid : bool; r_nclk : Z; r_acc : bool }.
Definition res_unit (nclk : Z) (acc : bool) : res := {| r_found := None; r_valid := false; r_nclk := nclk; r_acc := acc |}.

Definition set_cache (s : st) (c : list (Z * entry)) (sz : Z) : st :=
  {| s_cache := c; s_size := sz; s_m0 := s_m0 s; s_m1 := s_m1 s; s_m2 := s_m2 s; s_pend := s_pend s |}.
Definition set_pend (s : st) (p : list (Z * pend)) : st :=
  {| s_cache := s_cache s; s_size := s_size s; s_m0 := s_m0 s; s_m1 := s_m1 s; s_m2 := s_m2 s; s_pend := p |}.
Definition set_maps (s : st) (m0 m1 m2 : imap) : st :=
  {| s_cache := s_cache s; s_size := s_size s; s_m0 := m0; s_m1 := m1; s_m2 := m2; s_pend := s_pend s |}.

(* loadCached *)
Definition lookup (c : cfg) (s : st) (k from to t_lru t_chk : Z) : st * res :=
  match afind Z.eqb (s_cache s) k with
  | None => (s, res_unit 0 true)
  | Some e =>
      match afind range_eqb (e_rows e) (from, to) with
      | None => (s, res_unit 0 true)
      | Some cr =>
          let e' := {| e_lru := t_lru; e_rows := e_rows e; e_rowsSize := e_rowsSize e |} in
          (set_cache s (aset Z.eqb (s_cache s) k e') (s_size s),
           {| r_found := Some cr;
              r_valid := check_invalidation (s_m0 s) (s_m1 s) (s_m2 s) (c_off c) t_chk (cr_loadAt cr) from to;
              r_nclk := 2; r_acc := true |})
      end
  end.

Definition eweight (e : entry) : Z := e_rowsSize e + zlen (e_rows e).

(* evictLocked picks the smallest lru among the first 100 keys in map order: with at most 100
   entries the victim must have a minimal lru; with more, any present key may be the sampled minimum *)
Definition victim_ok (cache : list (Z * entry)) (e : entry) : bool :=
  if zlen cache <=? maxEvictionSampleSize
  then forallb (fun ke => e_lru e <=? e_lru (snd ke)) cache
  else true.

(* for c.size+len(c.cache) >= c.approxMaxSize { c.size -= c.evictLocked() } with the recorded victims *)
Fixpoint evict_loop (max : Z) (victims : list Z) (cache : list (Z * entry)) (size : Z)
  : list (Z * entry) * Z * bool :=
  match victims with
  | [] => (cache, size, negb (max <=? size + zlen cache))
  | v :: vs =>
      if max <=? size + zlen cache then
        match afind Z.eqb cache v with
        | Some e =>
            let '(c', s', a) := evict_loop max vs (adel Z.eqb cache v) (size - eweight e) in
            (c', s', victim_ok cache e && a)
        | None => (cache, size, false)
        end
      else (cache, size, false)
  end.

Definition empty_entry : entry := {| e_lru := 0; e_rows := []; e_rowsSize := 0 |}.

(* the Lock section of get *)
Definition store (c : cfg) (s : st) (id n rid t_lru : Z) (victims : list Z) : st * res :=
  match afind Z.eqb (s_pend s) id with
  | None => (s, res_unit 0 false)
  | Some p =>
      let '(cache1, size1, acc) := evict_loop (c_max c) victims (s_cache s) (s_size s) in
      let e := match afind Z.eqb cache1 (p_key p) with Some e => e | None => empty_entry end in
      let tr := (p_from p, p_to p) in
      let size2 := match afind range_eqb (e_rows e) tr with
                   | None => size1 + 1 + n
                   | Some _ => size1 + n
                   end in
      let e' := {| e_lru := t_lru;
                   e_rows := aset range_eqb (e_rows e) tr {| cr_rid := rid; cr_n := n; cr_loadAt := p_loadAt p |};
                   e_rowsSize := e_rowsSize e + n |} in
      (set_pend (set_cache s (aset Z.eqb cache1 (p_key p) e') size2) (adel Z.eqb (s_pend s) id),
       res_unit 1 acc)
  end.

(* invalidateLocked on one map: every key < from is deleted except the recorded survivors
   (keys the 100-key sample did not reach); with at most 100 keys there are no survivors *)
Definition purge (m : imap) (from : Z) (surv : list Z) : imap :=
  filter (fun kv => negb ((fst kv <? from) && negb (memZ (fst kv) surv))) m.
Definition purge_acc (m : imap) (from : Z) (surv : list Z) : bool :=
  forallb (fun d => (d <? from) && match afind Z.eqb m d with Some _ => true | None => false end) surv
  && (if zlen m <=? maxEvictionSampleSize then match surv with [] => true | _ => false end
      else zlen surv <=? zlen m - maxEvictionSampleSize).

Definition update_all (off at_ : Z) (ms : imap * imap * imap) (sec : Z) : imap * imap * imap :=
  let '(m0, m1, m2) := ms in
  (upd_max m0 (roundTime sec step0 off) at_,
   upd_max m1 (roundTime sec step1 off) at_,
   upd_max m2 (roundTime sec step2 off) at_).

Definition purge_from (t_purge : Z) : Z := unix_of (t_purge + invalidateFromNs).

Definition invalidate (c : cfg) (s : st) (secs : list Z) (t_at t_purge : Z) (sv0 sv1 sv2 : list Z) : st * res :=
  let '(m0, m1, m2) := fold_left (update_all (c_off c) t_at) secs (s_m0 s, s_m1 s, s_m2 s) in
  let from := purge_from t_purge in
  (set_maps s (purge m0 from sv0) (purge m1 from sv1) (purge m2 from sv2),
   res_unit 2 (purge_acc m0 from sv0 && purge_acc m1 from sv1 && purge_acc m2 from sv2)).

Definition step (c : cfg) (s : st) (o : op) : st * res :=
  match o with
  | OLookup _ k from to t_lru t_chk => lookup c s k from to t_lru t_chk
  | OLoadStart id k from to t_load =>
      (set_pend s (aset Z.eqb (s_pend s) id {| p_key := k; p_from := from; p_to := to; p_loadAt := t_load |}),
       res_unit 1 true)
  | OStore id n rid t_lru victims => store c s id n rid t_lru victims
  | ODrop id => (set_pend s (adel Z.eqb (s_pend s) id), res_unit 0 true)
  | OInvalidate secs t_at t_purge sv0 sv1 sv2 => invalidate c s secs t_at t_purge sv0 sv1 sv2
  end.

Fixpoint run (c : cfg) (s : st) (h : list op) : st * list res :=
  match h with
  | [] => (s, [])
  | o :: h' => let '(s1, r) := step c s o in
               let '(s2, rs) := run c s1 h' in (s2, r :: rs)
  end.

(* what the harness can observe of the state through accessors *)
Definition sumZ (l : list Z) : Z := fold_left Z.add l 0.
Definition digest (s : st) : list Z :=
  [ s_size s; zlen (s_cache s);
    sumZ (map (fun ke => zlen (e_rows (snd ke))) (s_cache s));
    sumZ (map (fun ke => e_rowsSize (snd ke)) (s_cache s));
    u64 (sumZ (map (fun ke => e_lru (snd ke)) (s_cache s)));
    zlen (s_m0 s); zlen (s_m1 s); zlen (s_m2 s); zlen (s_pend s);
    sumZ (map (fun ke => sumZ (map (fun rc => cr_n (snd rc)) (e_rows (snd ke)))) (s_cache s));
    u64 (sumZ (map (fun ke => sumZ (map (fun rc => cr_loadAt (snd rc)) (e_rows (snd ke)))) (s_cache s)));
    u64 (sumZ (map snd (s_m0 s)) + sumZ (map snd (s_m1 s)) + sumZ (map snd (s_m2 s))) ].
