(* Correspondence cases for C24: one case = one whole history of atomic steps executed by the real
   pointsCache (scripted clock, counting loader whose body may run nested operations), with what
   was observed after every step. *)
From Coq Require Import ZArith List Bool.
From SH Require Import Common.Wrap Common.Corr PointsCache.Model.
Import ListNotations.
Open Scope Z_scope.

(* observation of one step: what loadCached / get returned (rows identity, length), the validity
   flag, the number of c.now() calls made, and a digest of the state read through accessors *)
Record ob := { o_found : option (Z * Z); o_valid : bool; o_nclk : Z; o_dig : Z }.

Inductive case := CHist (c : cfg) (consts : list Z) (steps : list (op * ob)).

(* short forms used by the harness when printing cases *)
Definition mk (o : op) (f : option (Z * Z)) (v : bool) (n : Z) (d : Z) : op * ob :=
  (o, {| o_found := f; o_valid := v; o_nclk := n; o_dig := d |}).
Definition mkc (m o : Z) : cfg := {| c_max := m; c_off := o |}.
(* the state digest is compared through a hash (one number per step keeps the case files small) *)
Definition dhash (l : list Z) : Z :=
  fold_left (fun acc x => (acc * 1000003 + x mod 2147483647) mod 2147483647) l 7.

Fixpoint listZ_eqb (a b : list Z) : bool :=
  match a, b with
  | [], [] => true
  | x :: a', y :: b' => (x =? y) && listZ_eqb a' b'
  | _, _ => false
  end.

(* rows are recognised by their content: an empty result carries no identity *)
Definition norm (cr : crow) : Z * Z := (if cr_n cr =? 0 then -1 else cr_rid cr, cr_n cr).
Definition optp_eqb (a b : option (Z * Z)) : bool :=
  match a, b with
  | Some x, Some y => (fst x =? fst y) && (snd x =? snd y)
  | None, None => true
  | _, _ => false
  end.

Definition ob_ok (o : op) (r : res) (b : ob) : bool :=
  r_acc r && (r_nclk r =? o_nclk b) &&
  match o with
  | OLookup true _ _ _ _ _ =>
      (* inside get: rows are returned from the cache iff loadCached says valid *)
      optp_eqb (if r_valid r then option_map norm (r_found r) else None) (o_found b)
  | OLookup false _ _ _ _ _ =>
      optp_eqb (option_map norm (r_found r)) (o_found b) && Bool.eqb (r_valid r) (o_valid b)
  | _ => true
  end.

Fixpoint replay (c : cfg) (s : st) (steps : list (op * ob)) : bool :=
  match steps with
  | [] => true
  | (o, b) :: rest =>
      let '(s', r) := step c s o in
      ob_ok o r b && (dhash (digest s') =? o_dig b) && replay c s' rest
  end.

Definition ok (x : case) : bool :=
  match x with
  | CHist c consts steps => listZ_eqb consts model_consts && replay c init steps
  end.

Definition mism := mismatches ok.
