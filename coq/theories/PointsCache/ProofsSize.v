(* C24 — size accounting of pointsCache: c.size equals the sum over entries of rowsSize + #ranges,
   it dominates what is really stored, stays bounded after every get, and the eviction loop ends. *)
From Coq Require Import ZArith List Bool Lia.
From SH Require Import Common.Wrap PointsCache.Model PointsCache.ProofsCheck PointsCache.ProofsHist.
Import ListNotations.
Open Scope Z_scope.

Fixpoint wsum (cache : list (Z * entry)) : Z :=
  match cache with [] => 0 | ke :: rest => eweight (snd ke) + wsum rest end.
Fixpoint nsum (rows : list ((Z * Z) * crow)) : Z :=
  match rows with [] => 0 | rc :: rest => cr_n (snd rc) + nsum rest end.
(* rows really held by the cache *)
Fixpoint stored_rows (cache : list (Z * entry)) : Z :=
  match cache with [] => 0 | ke :: rest => nsum (e_rows (snd ke)) + stored_rows rest end.
Fixpoint stored_ranges (cache : list (Z * entry)) : Z :=
  match cache with [] => 0 | ke :: rest => zlen (e_rows (snd ke)) + stored_ranges rest end.

Definition entry_ok (e : entry) : Prop :=
  Forall (fun rc => 0 <= cr_n (snd rc)) (e_rows e) /\ nsum (e_rows e) <= e_rowsSize e.
Definition sinv (s : st) : Prop :=
  s_size s = wsum (s_cache s) /\ Forall (fun ke => entry_ok (snd ke)) (s_cache s) /\ NoDup (map fst (s_cache s)).

Lemma zlen_cons {A} (x : A) l : zlen (x :: l) = 1 + zlen l.
Proof. unfold zlen. simpl length. lia. Qed.
Lemma zlen_nonneg {A} (l : list A) : 0 <= zlen l.
Proof. unfold zlen. lia. Qed.

(* ---- generic facts on aset/adel ---- *)
Section A.
  Context {K V : Type}.
  Variable keqb : K -> K -> bool.
  Hypothesis keqb_eq : forall a b, keqb a b = true <-> a = b.

  Lemma zlen_aset (m : list (K * V)) k v :
    zlen (aset keqb m k v) = zlen m + match afind keqb m k with Some _ => 0 | None => 1 end.
  Proof.
    induction m as [|[k' v'] m IH]; cbn [aset afind].
    - reflexivity.
    - destruct (keqb k' k); rewrite !zlen_cons; [lia | rewrite IH; lia].
  Qed.
  Lemma zlen_adel (m : list (K * V)) k :
    zlen (adel keqb m k) = zlen m - match afind keqb m k with Some _ => 1 | None => 0 end.
  Proof.
    induction m as [|[k' v'] m IH]; cbn [adel afind].
    - unfold zlen; simpl; lia.
    - destruct (keqb k' k); rewrite !zlen_cons; [lia | rewrite IH; lia].
  Qed.
  Lemma Forall_aset (P : K * V -> Prop) (m : list (K * V)) k v :
    Forall P m -> (forall k', keqb k' k = true -> P (k', v)) -> Forall P (aset keqb m k v).
  Proof.
    intros F Hn. induction m as [|[k' v'] m IH]; simpl.
    - constructor; [apply Hn; apply keqb_eq; reflexivity | constructor].
    - inversion F; subst. destruct (keqb k' k) eqn:E.
      + constructor; [apply Hn; exact E | assumption].
      + constructor; [assumption | apply IH; assumption].
  Qed.
  Lemma Forall_adel (P : K * V -> Prop) (m : list (K * V)) k : Forall P m -> Forall P (adel keqb m k).
  Proof.
    intros F. induction m as [|[k' v'] m IH]; simpl; [constructor|].
    inversion F; subst. destruct (keqb k' k); [assumption | constructor; [assumption | apply IH; assumption]].
  Qed.
  Lemma keys_aset (m : list (K * V)) k v :
    map fst (aset keqb m k v) = match afind keqb m k with Some _ => map fst m | None => map fst m ++ [k] end.
  Proof.
    induction m as [|[k' v'] m IH]; simpl; [reflexivity|].
    destruct (keqb k' k); simpl; [reflexivity|]. rewrite IH. destruct (afind keqb m k); reflexivity.
  Qed.
  Lemma afind_None_notin (m : list (K * V)) k : afind keqb m k = None -> ~ In k (map fst m).
  Proof.
    induction m as [|[k' v'] m IH]; simpl; [tauto|].
    destruct (keqb k' k) eqn:E; [discriminate|]. intros H [H1|H1].
    - subst. assert (keqb k k = true) by (apply keqb_eq; reflexivity). congruence.
    - exact (IH H H1).
  Qed.
  Lemma NoDup_aset (m : list (K * V)) k v : NoDup (map fst m) -> NoDup (map fst (aset keqb m k v)).
  Proof.
    intros N. rewrite keys_aset. destruct (afind keqb m k) eqn:F; [exact N|].
    apply afind_None_notin in F. clear -N F. induction (map fst m) as [|a l IH]; simpl.
    - constructor; [tauto | constructor].
    - inversion N; subst. constructor.
      + rewrite in_app_iff. simpl. intros [H|[H|[]]]; [tauto | subst; apply F; left; reflexivity].
      + apply IH; [assumption | intros H; apply F; right; exact H].
  Qed.
  Lemma keys_adel_incl (m : list (K * V)) k x : In x (map fst (adel keqb m k)) -> In x (map fst m).
  Proof.
    induction m as [|[k' v'] m IH]; simpl; [tauto|].
    destruct (keqb k' k); simpl; [tauto|]. intros [H|H]; [left; exact H | right; exact (IH H)].
  Qed.
  Lemma NoDup_adel (m : list (K * V)) k : NoDup (map fst m) -> NoDup (map fst (adel keqb m k)).
  Proof.
    induction m as [|[k' v'] m IH]; simpl; intros N; [constructor|].
    inversion N; subst. destruct (keqb k' k); [assumption|]. simpl. constructor.
    - intros H. apply H1. eapply keys_adel_incl; eauto.
    - apply IH; assumption.
  Qed.
  Lemma In_afind (m : list (K * V)) k v : NoDup (map fst m) -> In (k, v) m -> afind keqb m k = Some v.
  Proof.
    induction m as [|[k' v'] m IH]; simpl; intros N H; [contradiction|].
    inversion N; subst. destruct H as [H|H].
    - inversion H; subst. assert (E : keqb k k = true) by (apply keqb_eq; reflexivity). rewrite E. reflexivity.
    - destruct (keqb k' k) eqn:E.
      + apply keqb_eq in E. subst. exfalso. apply H2. apply in_map_iff. exists (k, v). split; [reflexivity | exact H].
      + apply IH; assumption.
  Qed.
End A.

Definition oweight (o : option entry) : Z := match o with Some e => eweight e | None => 0 end.

Lemma wsum_aset m k e :
  wsum (aset Z.eqb m k e) = wsum m - oweight (afind Z.eqb m k) + eweight e.
Proof.
  induction m as [|[k' e'] m IH]; simpl.
  - lia.
  - destruct (k' =? k); simpl; [lia | rewrite IH; lia].
Qed.
Lemma wsum_adel m k : wsum (adel Z.eqb m k) = wsum m - oweight (afind Z.eqb m k).
Proof.
  induction m as [|[k' e'] m IH]; simpl.
  - lia.
  - destruct (k' =? k); simpl; [lia | rewrite IH; lia].
Qed.

Definition on (o : option crow) : Z := match o with Some cr => cr_n cr | None => 0 end.
Lemma nsum_aset rows tr cr :
  nsum (aset range_eqb rows tr cr) = nsum rows - on (afind range_eqb rows tr) + cr_n cr.
Proof.
  induction rows as [|[tr' cr'] rows IH]; simpl.
  - lia.
  - destruct (range_eqb tr' tr); simpl; [lia | rewrite IH; lia].
Qed.
Lemma rows_nonneg rows tr : Forall (fun rc => 0 <= cr_n (snd rc)) rows -> 0 <= on (afind range_eqb rows tr).
Proof.
  induction rows as [|[tr' cr'] rows IH]; simpl; intros F; [lia|].
  inversion F; subst. destruct (range_eqb tr' tr); simpl in *; [lia | apply IH; assumption].
Qed.

Lemma afind_entry_ok cache k e :
  Forall (fun ke => entry_ok (snd ke)) cache -> afind Z.eqb cache k = Some e -> entry_ok e.
Proof.
  intros F H. apply (afind_In Z.eqb Z.eqb_eq) in H. rewrite Forall_forall in F. exact (F _ H).
Qed.

(* ---- the eviction loop ---- *)
Lemma evict_loop_inv max vs : forall cache size c1 z1 a1,
  evict_loop max vs cache size = (c1, z1, a1) ->
  size = wsum cache -> Forall (fun ke => entry_ok (snd ke)) cache -> NoDup (map fst cache) ->
  z1 = wsum c1 /\ Forall (fun ke => entry_ok (snd ke)) c1 /\ NoDup (map fst c1) /\
  (a1 = true -> z1 + zlen c1 < max).
Proof.
  induction vs as [|v vs IH]; intros cache size c1 z1 a1 H S F N; simpl in H.
  - inversion H; subst. repeat split; try assumption.
    intros A. apply negb_true_iff in A. apply Z.leb_gt in A. exact A.
  - destruct (max <=? size + zlen cache); [|inversion H; subst; repeat split; auto; discriminate].
    destruct (afind Z.eqb cache v) as [e|] eqn:Fe; [|inversion H; subst; repeat split; auto; discriminate].
    destruct (evict_loop max vs (adel Z.eqb cache v) (size - eweight e)) as [[c2 z2] a2] eqn:E.
    inversion H; subst; clear H.
    destruct (IH _ _ _ _ _ E) as [S' [F' [N' B']]].
    + rewrite wsum_adel, Fe. reflexivity.
    + apply Forall_adel. exact F.
    + apply NoDup_adel. exact N.
    + repeat split; try assumption. intros A. apply andb_true_iff in A. destruct A as [_ A]. exact (B' A).
Qed.

(* ---- every step keeps the accounting ---- *)
Definition nonneg_store (o : op) : Prop := match o with OStore _ n _ _ _ => 0 <= n | _ => True end.

Lemma sinv_step c s o s' r : sinv s -> nonneg_store o -> step c s o = (s', r) -> sinv s'.
Proof.
  intros [S [F N]] Hn H. destruct o; cbn [step] in H.
  - unfold lookup in H. destruct (afind Z.eqb (s_cache s) k) as [e|] eqn:E1.
    + destruct (afind range_eqb (e_rows e) (from, to)) as [cr|] eqn:E2.
      * inversion H; subst; clear H. unfold sinv; simpl. split; [|split].
        -- rewrite wsum_aset, E1. simpl. unfold eweight. simpl. lia.
        -- apply (Forall_aset Z.eqb Z.eqb_eq); [exact F|]. intros k' _. simpl.
           exact (afind_entry_ok _ _ _ F E1).
        -- apply (NoDup_aset Z.eqb Z.eqb_eq). exact N.
      * inversion H; subst. repeat split; assumption.
    + inversion H; subst. repeat split; assumption.
  - inversion H; subst. repeat split; assumption.
  - unfold store in H. destruct (afind Z.eqb (s_pend s) id) as [p|] eqn:Ep.
    + destruct (evict_loop (c_max c) victims (s_cache s) (s_size s)) as [[c1 z1] a1] eqn:Ev.
      destruct (evict_loop_inv _ _ _ _ _ _ _ Ev S F N) as [S1 [F1 [N1 _]]].
      inversion H; subst; clear H. unfold sinv, set_pend, set_cache; cbn [s_size s_cache].
      set (e := match afind Z.eqb c1 (p_key p) with Some e => e | None => empty_entry end).
      assert (Eok : entry_ok e).
      { unfold e. destruct (afind Z.eqb c1 (p_key p)) eqn:Fe; [exact (afind_entry_ok _ _ _ F1 Fe)|].
        split; simpl; [constructor | lia]. }
      assert (Ew : oweight (afind Z.eqb c1 (p_key p)) = eweight e).
      { unfold e. destruct (afind Z.eqb c1 (p_key p)); reflexivity. }
      split; [|split].
      * rewrite wsum_aset, Ew. unfold eweight at 2. cbn [e_rows e_rowsSize].
        rewrite (zlen_aset range_eqb). unfold eweight.
        destruct (afind range_eqb (e_rows e) (p_from p, p_to p)); lia.
      * apply (Forall_aset Z.eqb Z.eqb_eq); [exact F1|]. intros k' _. simpl.
        destruct Eok as [Fr Le]. split; simpl.
        -- apply (Forall_aset range_eqb range_eqb_eq); [exact Fr|]. intros; simpl. exact Hn.
        -- rewrite nsum_aset. simpl. pose proof (rows_nonneg _ (p_from p, p_to p) Fr). lia.
      * apply (NoDup_aset Z.eqb Z.eqb_eq). exact N1.
    + inversion H; subst. repeat split; assumption.
  - inversion H; subst. repeat split; assumption.
  - unfold invalidate in H.
    destruct (fold_left (update_all (c_off c) t_at) secs (s_m0 s, s_m1 s, s_m2 s)) as [[m0 m1] m2].
    inversion H; subst. repeat split; assumption.
Qed.

Lemma sinv_init : sinv init.
Proof. unfold sinv; simpl. repeat split; constructor. Qed.

Lemma sinv_run c h : forall s s' rs, sinv s -> Forall nonneg_store h -> run c s h = (s', rs) -> sinv s'.
Proof.
  induction h as [|o h IH]; intros s s' rs I Hn H; simpl in H.
  - inversion H; subst. exact I.
  - destruct (step c s o) as [s1 r] eqn:E1. destruct (run c s1 h) as [s2 rs2] eqn:E2.
    inversion H; subst. inversion Hn; subst.
    eapply IH; [|eassumption|exact E2]. eapply sinv_step; eauto.
Qed.

(* what is really stored never exceeds the accounted size *)
Lemma stored_le_wsum cache :
  Forall (fun ke => entry_ok (snd ke)) cache -> stored_rows cache + stored_ranges cache <= wsum cache.
Proof.
  induction cache as [|[k e] cache IH]; simpl; intros F; [lia|].
  inversion F; subst. destruct H1 as [_ Le]. simpl in Le. specialize (IH H2). unfold eweight. lia.
Qed.

Theorem size_invariant :
  forall c h s rs, Forall nonneg_store h -> run c init h = (s, rs) ->
    s_size s = wsum (s_cache s) /\
    stored_rows (s_cache s) + stored_ranges (s_cache s) <= s_size s.
Proof.
  intros c h s rs Hn H. destruct (sinv_run _ _ _ _ _ sinv_init Hn H) as [S [F _]].
  split; [exact S | rewrite S; apply stored_le_wsum; exact F].
Qed.

(* ---- the bound ---- *)
Definition store_le (maxn : Z) (o : op) : Prop := match o with OStore _ n _ _ _ => 0 <= n <= maxn | _ => True end.

Lemma bound_step c s o s' r maxn :
  sinv s -> store_le maxn o -> step c s o = (s', r) -> r_acc r = true ->
  s_size s + zlen (s_cache s) <= c_max c + 1 + maxn ->
  s_size s' + zlen (s_cache s') <= c_max c + 1 + maxn.
Proof.
  intros [S [F N]] Hn H A B. destruct o; cbn [step] in H.
  - unfold lookup in H. destruct (afind Z.eqb (s_cache s) k) as [e|] eqn:E1.
    + destruct (afind range_eqb (e_rows e) (from, to)) as [cr|] eqn:E2.
      * inversion H; subst; clear H. simpl. rewrite (zlen_aset Z.eqb), E1. lia.
      * inversion H; subst. exact B.
    + inversion H; subst. exact B.
  - inversion H; subst. exact B.
  - unfold store in H. destruct (afind Z.eqb (s_pend s) id) as [p|] eqn:Ep.
    + destruct (evict_loop (c_max c) victims (s_cache s) (s_size s)) as [[c1 z1] a1] eqn:Ev.
      destruct (evict_loop_inv _ _ _ _ _ _ _ Ev S F N) as [_ [_ [_ Bd]]].
      inversion H; subst; clear H. unfold set_pend, set_cache, res_unit in *; cbn [s_size s_cache r_acc] in *. specialize (Bd A).
      rewrite (zlen_aset Z.eqb).
      destruct (afind Z.eqb c1 (p_key p)); destruct (afind range_eqb _ _); simpl in Hn; lia.
    + inversion H; subst. exact B.
  - inversion H; subst. exact B.
  - unfold invalidate in H.
    destruct (fold_left (update_all (c_off c) t_at) secs (s_m0 s, s_m1 s, s_m2 s)) as [[m0 m1] m2].
    inversion H; subst. exact B.
Qed.

Lemma store_le_nonneg maxn o : store_le maxn o -> nonneg_store o.
Proof. destruct o; simpl; auto. lia. Qed.

Lemma bound_run c maxn h : forall s s' rs,
  sinv s -> Forall (store_le maxn) h -> run c s h = (s', rs) -> Forall (fun r => r_acc r = true) rs ->
  s_size s + zlen (s_cache s) <= c_max c + 1 + maxn ->
  s_size s' + zlen (s_cache s') <= c_max c + 1 + maxn.
Proof.
  induction h as [|o h IH]; intros s s' rs I Hn H A B; simpl in H.
  - inversion H; subst. exact B.
  - destruct (step c s o) as [s1 r] eqn:E1. destruct (run c s1 h) as [s2 rs2] eqn:E2.
    inversion H; subst. inversion Hn; subst. inversion A; subst.
    eapply IH; [| eassumption | exact E2 | assumption |].
    + eapply sinv_step; eauto. apply (store_le_nonneg maxn). assumption.
    + eapply bound_step; eauto.
Qed.

Theorem bounded_after_get :
  forall c maxn h s rs,
    0 <= c_max c + 1 + maxn ->
    Forall (store_le maxn) h ->
    run c init h = (s, rs) -> Forall (fun r => r_acc r = true) rs ->
    s_size s + zlen (s_cache s) <= c_max c + 1 + maxn /\
    stored_rows (s_cache s) + stored_ranges (s_cache s) + zlen (s_cache s) <= c_max c + 1 + maxn.
Proof.
  intros c maxn h s rs H0 Hn H A.
  assert (B : s_size s + zlen (s_cache s) <= c_max c + 1 + maxn).
  { eapply (bound_run c maxn h init s rs sinv_init Hn H A). unfold zlen; simpl. lia. }
  split; [exact B|].
  assert (Hn' : Forall nonneg_store h).
  { rewrite Forall_forall in *. intros o Ho. apply (store_le_nonneg maxn). auto. }
  destruct (size_invariant c h s rs Hn' H) as [_ L]. lia.
Qed.

(* ---- termination of the eviction loop ---- *)
Lemma exists_min_lru (cache : list (Z * entry)) :
  cache <> [] -> exists k e, In (k, e) cache /\ forall k' e', In (k', e') cache -> e_lru e <= e_lru e'.
Proof.
  induction cache as [|[k e] cache IH]; [congruence|]. intros _.
  destruct cache as [|x cache'].
  - exists k, e. split; [left; reflexivity|]. intros k' e' [H|[]]. inversion H; subst. lia.
  - destruct (IH ltac:(discriminate)) as [k1 [e1 [Hin Hmin]]].
    destruct (Z_le_gt_dec (e_lru e) (e_lru e1)).
    + exists k, e. split; [left; reflexivity|]. intros k' e' [H|H].
      * inversion H; subst. lia.
      * specialize (Hmin _ _ H). lia.
    + exists k1, e1. split; [right; exact Hin|]. intros k' e' [H|H].
      * inversion H; subst. lia.
      * exact (Hmin _ _ H).
Qed.

Lemma wsum_nonneg cache : Forall (fun ke => entry_ok (snd ke)) cache ->
  Forall (fun ke => Forall (fun rc => 0 <= cr_n (snd rc)) (e_rows (snd ke))) cache -> 0 <= wsum cache.
Proof.
  induction cache as [|[k e] cache IH]; simpl; intros F G; [lia|].
  inversion F; subst. specialize (IH H2 ltac:(inversion G; assumption)).
  destruct H1 as [Fr Le]. simpl in *.
  assert (0 <= nsum (e_rows e)).
  { clear -Fr. induction (e_rows e) as [|rc rows IHr]; simpl; [lia|]. inversion Fr; subst. specialize (IHr H2). lia. }
  unfold eweight. pose proof (zlen_nonneg (e_rows e)). lia.
Qed.

Lemma entry_weight_nonneg e : entry_ok e -> 0 <= eweight e.
Proof.
  intros [Fr Le]. unfold eweight. pose proof (zlen_nonneg (e_rows e)).
  assert (0 <= nsum (e_rows e)).
  { clear -Fr. induction (e_rows e) as [|rc rows IHr]; simpl; [lia|]. inversion Fr; subst. specialize (IHr H2). lia. }
  lia.
Qed.

(* with approxMaxSize >= 1 the loop `for c.size+len(c.cache) >= c.approxMaxSize { c.size -= c.evictLocked() }`
   ends: there is a sequence of at most len(cache) victims, each one evictLocked may pick, after
   which the condition is false *)
Theorem evict_loop_terminates :
  forall max n cache size,
    1 <= max -> length cache = n ->
    size = wsum cache -> Forall (fun ke => entry_ok (snd ke)) cache -> NoDup (map fst cache) ->
    exists victims, (length victims <= n)%nat /\
      exists c1 z1, evict_loop max victims cache size = (c1, z1, true).
Proof.
  intros max n. induction n as [|n IH]; intros cache size Hm Hl S F N.
  - destruct cache; [|discriminate]. exists []. split; [simpl; lia|]. simpl. subst size. simpl.
    exists [], 0. unfold zlen; simpl. destruct (max <=? 0) eqn:E; [apply Z.leb_le in E; lia | reflexivity].
  - destruct (max <=? size + zlen cache) eqn:Cnd.
    + destruct (exists_min_lru cache ltac:(destruct cache; [discriminate | discriminate])) as [k [e [Hin Hmin]]].
      pose proof (In_afind Z.eqb Z.eqb_eq _ _ _ N Hin) as Fk.
      destruct (IH (adel Z.eqb cache k) (size - eweight e) Hm) as [vs [Lv [c1 [z1 Ev]]]].
      * apply (f_equal Z.of_nat) in Hl. pose proof (zlen_adel Z.eqb cache k) as Hd. rewrite Fk in Hd.
        unfold zlen in Hd. lia.
      * rewrite wsum_adel, Fk. simpl. lia.
      * apply Forall_adel. exact F.
      * apply NoDup_adel. exact N.
      * exists (k :: vs). split; [simpl; lia|]. simpl. rewrite Cnd, Fk, Ev.
        exists c1, z1. f_equal. unfold victim_ok.
        destruct (zlen cache <=? maxEvictionSampleSize); [|reflexivity].
        apply andb_true_iff. split; [|reflexivity].
        apply forallb_forall. intros [k' e'] Hin'. simpl. apply Z.leb_le. exact (Hmin _ _ Hin').
    + exists []. split; [simpl; lia|]. simpl. rewrite Cnd. exists cache, size. reflexivity.
Qed.

(* remark: with approxMaxSize <= 0 and an empty cache no victim sequence is accepted — the Go loop spins *)
Theorem evict_loop_spins_when_max_not_positive :
  forall max victims, max <= 0 -> exists c1 z1, evict_loop max victims [] 0 = (c1, z1, false).
Proof.
  intros max victims Hm. destruct victims as [|v vs]; simpl.
  - exists [], 0. unfold zlen; simpl. destruct (max <=? 0) eqn:E; [reflexivity | apply Z.leb_gt in E; lia].
  - unfold zlen; simpl. destruct (max <=? 0) eqn:E; [|apply Z.leb_gt in E; lia]. exists [], 0. reflexivity.
Qed.
