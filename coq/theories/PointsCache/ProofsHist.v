(* C24 — invariants over all histories of atomic steps: what the three invalidation maps record
   about the invalidations issued so far, and where cached rows come from. *)
From Coq Require Import ZArith List Bool Lia.
From SH Require Import Common.Wrap PointsCache.Model PointsCache.ProofsCheck.
Import ListNotations.
Open Scope Z_scope.

(* ---------- specification-level views of a history ---------- *)
(* every (moment, second) pair passed to updateTimeLocked *)
Definition events (h : list op) : list (Z * Z) :=
  flat_map (fun o => match o with
                     | OInvalidate secs t_at _ _ _ _ => map (fun s => (t_at, s)) secs
                     | _ => []
                     end) h.
(* every clock value from which invalidateLocked computed a purge threshold *)
Definition purge_stamps (h : list op) : list Z :=
  flat_map (fun o => match o with OInvalidate _ _ tp _ _ _ => [tp] | _ => [] end) h.

Lemma events_app a b : events (a ++ b) = events a ++ events b.
Proof. apply flat_map_app. Qed.
Lemma purge_stamps_app a b : purge_stamps (a ++ b) = purge_stamps a ++ purge_stamps b.
Proof. apply flat_map_app. Qed.

(* ---------- one level of the invalidation maps ---------- *)
(* every invalidation of a second is remembered by the cell of that second with a moment at least
   as late, unless the cell lies before a purge threshold *)
Definition cov (m : imap) (f : Z -> Z) (ev : list (Z * Z)) (ps : list Z) : Prop :=
  forall at_ sec, In (at_, sec) ev ->
    (exists v, afind Z.eqb m (f sec) = Some v /\ at_ <= v) \/
    (exists tp, In tp ps /\ f sec < purge_from tp).
(* every stored moment is the moment of some invalidation *)
Definition vals_ok (m : imap) (ev : list (Z * Z)) : Prop :=
  forall c v, afind Z.eqb m c = Some v -> exists sec, In (v, sec) ev.

Lemma afind_upd_max m r a c :
  afind Z.eqb (upd_max m r a) c =
  if r =? c then Some (match afind Z.eqb m r with
                       | Some last => if last <? a then a else last
                       | None => a end)
  else afind Z.eqb m c.
Proof.
  unfold upd_max. destruct (afind Z.eqb m r) as [last|] eqn:F.
  - destruct (last <? a) eqn:L.
    + apply afind_aset_Z.
    + destruct (r =? c) eqn:E; [apply Z.eqb_eq in E; subst; exact F | reflexivity].
  - apply afind_aset_Z.
Qed.

Lemma upd_fold_facts (f : Z -> Z) at_ secs : forall m,
  let m' := fold_left (fun m s => upd_max m (f s) at_) secs m in
  (forall c v, afind Z.eqb m c = Some v -> exists v', afind Z.eqb m' c = Some v' /\ v <= v') /\
  (forall s, In s secs -> exists v', afind Z.eqb m' (f s) = Some v' /\ at_ <= v') /\
  (forall c v', afind Z.eqb m' c = Some v' -> (v' = at_ /\ exists s, In s secs) \/ afind Z.eqb m c = Some v').
Proof.
  induction secs as [|s0 secs IH]; intros m; simpl.
  - split; [|split].
    + intros c v H. exists v. split; [exact H | lia].
    + intros s [].
    + intros c v' H. right. exact H.
  - destruct (IH (upd_max m (f s0) at_)) as [P1 [P2 P3]]. split; [|split].
    + intros c v H.
      assert (exists v1, afind Z.eqb (upd_max m (f s0) at_) c = Some v1 /\ v <= v1) as [v1 [H1 L1]].
      { rewrite afind_upd_max. destruct (f s0 =? c) eqn:E.
        - apply Z.eqb_eq in E. rewrite E, H. destruct (v <? at_) eqn:L;
            [apply Z.ltb_lt in L | apply Z.ltb_ge in L]; eexists; split; try reflexivity; lia.
        - exists v. split; [exact H | lia]. }
      destruct (P1 c v1 H1) as [v' [H' L']]. exists v'. split; [exact H' | lia].
    + intros s [Hs|Hs].
      * subst s0.
        assert (exists v1, afind Z.eqb (upd_max m (f s) at_) (f s) = Some v1 /\ at_ <= v1) as [v1 [H1 L1]].
        { rewrite afind_upd_max, Z.eqb_refl. destruct (afind Z.eqb m (f s)) as [last|].
          - destruct (last <? at_) eqn:L; [apply Z.ltb_lt in L | apply Z.ltb_ge in L];
              eexists; split; try reflexivity; lia.
          - eexists; split; try reflexivity; lia. }
        destruct (P1 _ v1 H1) as [v' [H' L']]. exists v'. split; [exact H' | lia].
      * apply P2. exact Hs.
    + intros c v' H. destruct (P3 c v' H) as [[E [s Hs]]|H1].
      * left. split; [exact E | exists s; right; exact Hs].
      * rewrite afind_upd_max in H1. destruct (f s0 =? c) eqn:E.
        -- apply Z.eqb_eq in E. destruct (afind Z.eqb m (f s0)) as [last|] eqn:F.
           ++ destruct (last <? at_); inversion H1; subst.
              ** left. split; [reflexivity | exists s0; left; reflexivity].
              ** right. exact F.
           ++ inversion H1; subst. left. split; [reflexivity | exists s0; left; reflexivity].
        -- right. exact H1.
Qed.

Lemma afind_purge m from surv c :
  afind Z.eqb (purge m from surv) c =
  if negb ((c <? from) && negb (memZ c surv)) then afind Z.eqb m c else None.
Proof.
  unfold purge.
  exact (afind_filter_key (fun k => negb ((k <? from) && negb (memZ k surv))) m c).
Qed.

(* invalidate on one level: updateTimeLocked for all seconds, then the purge *)
Lemma invalidate_level m f ev ps secs t_at tp surv :
  cov m f ev ps -> vals_ok m ev ->
  let m2 := purge (fold_left (fun m s => upd_max m (f s) t_at) secs m) (purge_from tp) surv in
  let ev' := ev ++ map (fun s => (t_at, s)) secs in
  cov m2 f ev' (ps ++ [tp]) /\ vals_ok m2 ev'.
Proof.
  intros C V m2 ev'.
  destruct (upd_fold_facts f t_at secs m) as [P1 [P2 P3]].
  set (m1 := fold_left (fun m s => upd_max m (f s) t_at) secs m) in *.
  assert (K : forall c v at_, afind Z.eqb m1 c = Some v -> at_ <= v ->
              (exists v, afind Z.eqb m2 c = Some v /\ at_ <= v) \/
              (exists tp0, In tp0 (ps ++ [tp]) /\ c < purge_from tp0)).
  { intros c v at_ H L. unfold m2. rewrite afind_purge.
    destruct (c <? purge_from tp) eqn:E; simpl.
    - destruct (memZ c surv); simpl.
      + left. exists v. split; [exact H | exact L].
      + right. exists tp. split; [apply in_or_app; right; left; reflexivity | apply Z.ltb_lt; exact E].
    - left. exists v. split; [exact H | exact L]. }
  split.
  - intros at_ sec Hin. apply in_app_or in Hin. destruct Hin as [Hin|Hin].
    + destruct (C at_ sec Hin) as [[v [H L]]|[tp0 [Hi Hl]]].
      * destruct (P1 _ _ H) as [v' [H' L']]. apply (K _ v'); [exact H' | lia].
      * right. exists tp0. split; [apply in_or_app; left; exact Hi | exact Hl].
    + apply in_map_iff in Hin. destruct Hin as [s [E Hs]]. inversion E; subst.
      destruct (P2 _ Hs) as [v' [H' L']]. apply (K _ v'); assumption.
  - intros c v H. unfold m2 in H. rewrite afind_purge in H.
    destruct (negb ((c <? purge_from tp) && negb (memZ c surv))); [|discriminate].
    destruct (P3 _ _ H) as [[E [s Hs]]|H0].
    + exists s. apply in_or_app. right. apply in_map_iff. exists s. subst v. split; [reflexivity | exact Hs].
    + destruct (V _ _ H0) as [sec Hsec]. exists sec. apply in_or_app. left. exact Hsec.
Qed.

Lemma fold_update_all off t_at secs : forall m0 m1 m2,
  fold_left (update_all off t_at) secs (m0, m1, m2) =
  (fold_left (fun m s => upd_max m (roundTime s step0 off) t_at) secs m0,
   fold_left (fun m s => upd_max m (roundTime s step1 off) t_at) secs m1,
   fold_left (fun m s => upd_max m (roundTime s step2 off) t_at) secs m2).
Proof. induction secs as [|s secs IH]; intros; simpl; [reflexivity | apply IH]. Qed.

(* ---------- the invariant of the three maps ---------- *)
Definition minv (off : Z) (s : st) (h : list op) : Prop :=
  (cov (s_m0 s) (fun x => roundTime x step0 off) (events h) (purge_stamps h) /\ vals_ok (s_m0 s) (events h)) /\
  (cov (s_m1 s) (fun x => roundTime x step1 off) (events h) (purge_stamps h) /\ vals_ok (s_m1 s) (events h)) /\
  (cov (s_m2 s) (fun x => roundTime x step2 off) (events h) (purge_stamps h) /\ vals_ok (s_m2 s) (events h)).

Lemma minv_init off : minv off init [].
Proof.
  unfold minv, cov, vals_ok; simpl.
  repeat split; try (intros ? ? []); intros; discriminate.
Qed.

Lemma step_maps c s o s' r :
  step c s o = (s', r) ->
  match o with
  | OInvalidate _ _ _ _ _ _ => True
  | _ => s_m0 s' = s_m0 s /\ s_m1 s' = s_m1 s /\ s_m2 s' = s_m2 s
  end.
Proof.
  destruct o; simpl; intros H; try exact I.
  - unfold lookup in H. destruct (afind Z.eqb (s_cache s) k) as [e|];
      [destruct (afind range_eqb (e_rows e) (from, to))|]; inversion H; subst; simpl; auto.
  - inversion H; subst; simpl; auto.
  - unfold store in H. destruct (afind Z.eqb (s_pend s) id) as [p|].
    + destruct (evict_loop (c_max c) victims (s_cache s) (s_size s)) as [[c1 z1] a1].
      inversion H; subst; simpl; auto.
    + inversion H; subst; auto.
  - inversion H; subst; simpl; auto.
Qed.

Lemma minv_step c s o s' r hp :
  minv (c_off c) s hp -> step c s o = (s', r) -> minv (c_off c) s' (hp ++ [o]).
Proof.
  intros M H. pose proof (step_maps _ _ _ _ _ H) as Hm.
  destruct o;
    try (destruct Hm as [E0 [E1 E2]]; unfold minv; rewrite E0, E1, E2, events_app, purge_stamps_app;
         simpl; rewrite !app_nil_r; exact M).
  clear Hm. simpl in H. unfold invalidate in H.
  rewrite fold_update_all in H. inversion H; subst; clear H.
  unfold minv. rewrite events_app, purge_stamps_app. simpl. rewrite !app_nil_r.
  destruct M as [[C0 V0] [[C1 V1] [C2 V2]]].
  split; [|split].
  - exact (invalidate_level _ _ _ _ secs t_at t_purge surv0 C0 V0).
  - exact (invalidate_level _ _ _ _ secs t_at t_purge surv1 C1 V1).
  - exact (invalidate_level _ _ _ _ secs t_at t_purge surv2 C2 V2).
Qed.

Lemma run_app_inv (P : st -> list op -> Prop) c :
  (forall s o s' r hp, P s hp -> step c s o = (s', r) -> P s' (hp ++ [o])) ->
  forall h s hp s' rs, P s hp -> run c s h = (s', rs) -> P s' (hp ++ h).
Proof.
  intros St. induction h as [|o h IH]; intros s hp s' rs HP H; simpl in H.
  - inversion H; subst. rewrite app_nil_r. exact HP.
  - destruct (step c s o) as [s1 r] eqn:E1. destruct (run c s1 h) as [s2 rs2] eqn:E2.
    inversion H; subst.
    replace (hp ++ o :: h) with ((hp ++ [o]) ++ h) by (rewrite <- app_assoc; reflexivity).
    eapply IH; [|exact E2]. eapply St; eauto.
Qed.

Lemma minv_run c h s rs : run c init h = (s, rs) -> minv (c_off c) s h.
Proof.
  intros H.
  exact (run_app_inv (fun s h => minv (c_off c) s h) c (fun s o s' r hp => @minv_step c s o s' r hp)
           h init [] s rs (minv_init _) H).
Qed.

(* ---------- soundness of checkInvalidationLocked against the history ---------- *)
Definition stamps_fit_int64 (ev : list (Z * Z)) : Prop :=
  Forall (fun e => - two63 <= fst e + lingerNs < two63) ev.

Lemma not_blocked_later m ev loadAt c v at_ :
  vals_ok m ev -> stamps_fit_int64 ev ->
  afind Z.eqb m c = Some v -> at_ <= v -> blocked m loadAt c = false -> at_ + lingerNs < loadAt.
Proof.
  intros V B F L Hb. unfold blocked in Hb. rewrite F in Hb.
  destruct (V _ _ F) as [sec Hsec].
  unfold stamps_fit_int64 in B. rewrite Forall_forall in B. specialize (B _ Hsec). simpl in B.
  rewrite i64_small in Hb by exact B. apply Z.leb_gt in Hb. lia.
Qed.

Lemma check_sound off s h now loadAt from to :
  minv off s h ->
  Forall (fun tp => tp <= now) (purge_stamps h) ->
  stamps_fit_int64 (events h) ->
  check_invalidation (s_m0 s) (s_m1 s) (s_m2 s) off now loadAt from to = true ->
  now + invalidateFromNs <= to * nanos ->
  forall at_ sec, In (at_, sec) (events h) ->
    Z.max from (unix_of (now + invalidateFromNs)) <= sec <= to ->
    at_ + lingerNs < loadAt.
Proof.
  intros [[C0 V0] [[C1 V1] [C2 V2]]] Mono Fit Hc Win at_ sec Hin Hsec.
  unfold check_invalidation in Hc. rewrite clamp_is_max in Hc.
  destruct (to * nanos <? now + invalidateFromNs) eqn:E; [apply Z.ltb_lt in E; lia|].
  set (a := Z.max from (unix_of (now + invalidateFromNs))) in *.
  assert (Hp : forall tp, In tp (purge_stamps h) -> purge_from tp <= a).
  { intros tp Htp. rewrite Forall_forall in Mono. specialize (Mono _ Htp).
    unfold purge_from. pose proof (unix_of_mono (tp + invalidateFromNs) (now + invalidateFromNs) ltac:(lia)).
    unfold a. lia. }
  destruct (chk0_cover _ _ _ _ _ _ _ sec Hc Hsec) as [B|[[L B]|[L B]]].
  - destruct (C2 _ _ Hin) as [[v [F Lv]]|[tp [Htp Hlt]]].
    + simpl in F. rewrite roundTime_one in F. exact (not_blocked_later _ _ _ _ _ _ V2 Fit F Lv B).
    + simpl in Hlt. rewrite roundTime_one in Hlt. specialize (Hp _ Htp). lia.
  - destruct (C1 _ _ Hin) as [[v [F Lv]]|[tp [Htp Hlt]]].
    + exact (not_blocked_later _ _ _ _ _ _ V1 Fit F Lv B).
    + specialize (Hp _ Htp). simpl in Hlt. lia.
  - destruct (C0 _ _ Hin) as [[v [F Lv]]|[tp [Htp Hlt]]].
    + exact (not_blocked_later _ _ _ _ _ _ V0 Fit F Lv B).
    + specialize (Hp _ Htp). simpl in Hlt. lia.
Qed.

(* what a lookup step returns *)
Lemma lookup_res c s vg k from to t_lru t_chk s' r cr :
  step c s (OLookup vg k from to t_lru t_chk) = (s', r) -> r_found r = Some cr ->
  r_valid r = check_invalidation (s_m0 s) (s_m1 s) (s_m2 s) (c_off c) t_chk (cr_loadAt cr) from to /\
  exists e, afind Z.eqb (s_cache s) k = Some e /\ afind range_eqb (e_rows e) (from, to) = Some cr.
Proof.
  simpl. unfold lookup. intros H F.
  destruct (afind Z.eqb (s_cache s) k) as [e|] eqn:E1; [|inversion H; subst; discriminate].
  destruct (afind range_eqb (e_rows e) (from, to)) as [cr'|] eqn:E2; [|inversion H; subst; discriminate].
  inversion H; subst; simpl in *. inversion F; subst. split; [reflexivity|]. exists e. auto.
Qed.

Theorem served_implies_no_later_invalidation :
  forall c h s rs vg k from to t_lru t_chk s' r cr,
    run c init h = (s, rs) ->
    step c s (OLookup vg k from to t_lru t_chk) = (s', r) ->
    r_found r = Some cr -> r_valid r = true ->
    Forall (fun tp => tp <= t_chk) (purge_stamps h) ->
    stamps_fit_int64 (events h) ->
    t_chk + invalidateFromNs <= to * nanos ->
    forall at_ sec, In (at_, sec) (events h) ->
      Z.max from (unix_of (t_chk + invalidateFromNs)) <= sec <= to ->
      at_ + lingerNs < cr_loadAt cr.
Proof.
  intros c h s rs vg k from to t_lru t_chk s' r cr Hrun Hstep Hf Hv Mono Fit Win.
  destruct (lookup_res _ _ _ _ _ _ _ _ _ _ _ Hstep Hf) as [Hval _].
  rewrite Hv in Hval. symmetry in Hval.
  exact (check_sound _ _ _ _ _ _ _ (minv_run _ _ _ _ Hrun) Mono Fit Hval Win).
Qed.

(* outside the mutable window the check is not consulted at all *)
Theorem immutable_window_served_as_loaded :
  forall c s vg k from to t_lru t_chk s' r cr,
    step c s (OLookup vg k from to t_lru t_chk) = (s', r) ->
    r_found r = Some cr ->
    to * nanos < t_chk + invalidateFromNs ->
    r_valid r = true.
Proof.
  intros c s vg k from to t_lru t_chk s' r cr Hstep Hf Hw.
  destruct (lookup_res _ _ _ _ _ _ _ _ _ _ _ Hstep Hf) as [Hval _].
  rewrite Hval. unfold check_invalidation.
  apply Z.ltb_lt in Hw. rewrite Hw. reflexivity.
Qed.

(* the check is not vacuous: with no invalidation issued, whatever is cached is served *)
Lemma scan_none m loadAt step n : (forall c, afind Z.eqb m c = None) -> forall i, scan m loadAt i step n = true.
Proof.
  intros H. induction n as [|n IH]; intros i; simpl; [reflexivity|].
  unfold blocked. rewrite H. apply IH.
Qed.

Theorem uninvalidated_is_served :
  forall c h s rs vg k from to t_lru t_chk s' r cr,
    run c init h = (s, rs) -> events h = [] ->
    step c s (OLookup vg k from to t_lru t_chk) = (s', r) ->
    r_found r = Some cr -> r_valid r = true.
Proof.
  intros c h s rs vg k from to t_lru t_chk s' r cr Hrun Hev Hstep Hf.
  destruct (lookup_res _ _ _ _ _ _ _ _ _ _ _ Hstep Hf) as [Hval _]. rewrite Hval.
  destruct (minv_run _ _ _ _ Hrun) as [[_ V0] [[_ V1] [_ V2]]]. rewrite Hev in *.
  assert (N : forall m, vals_ok m [] -> forall c0, afind Z.eqb m c0 = None).
  { intros m V c0. destruct (afind Z.eqb m c0) eqn:F; [|reflexivity]. destruct (V _ _ F) as [? []]. }
  unfold check_invalidation. destruct (to * nanos <? t_chk + invalidateFromNs); [reflexivity|].
  unfold chk0, chk1, chk_level, chk2.
  rewrite !scan_none by (apply N; assumption). reflexivity.
Qed.

(* ---------- provenance of cached rows ---------- *)
Section AssocIn.
  Context {K V : Type}.
  Variable keqb : K -> K -> bool.
  Hypothesis keqb_eq : forall a b, keqb a b = true <-> a = b.

  Lemma afind_In (m : list (K * V)) k v : afind keqb m k = Some v -> In (k, v) m.
  Proof.
    induction m as [|[k' v'] m IH]; simpl; [discriminate|].
    destruct (keqb k' k) eqn:E.
    - intros H. inversion H; subst. apply keqb_eq in E. subst. left. reflexivity.
    - intros H. right. exact (IH H).
  Qed.
  Lemma In_adel (m : list (K * V)) k x : In x (adel keqb m k) -> In x m.
  Proof.
    induction m as [|[k' v'] m IH]; simpl; [tauto|].
    destruct (keqb k' k); simpl; intros H; [right; exact H|].
    destruct H as [H|H]; [left; exact H | right; exact (IH H)].
  Qed.
  Lemma In_aset (m : list (K * V)) k v x : In x (aset keqb m k v) -> In x m \/ x = (k, v).
  Proof.
    induction m as [|[k' v'] m IH]; simpl.
    - intros [H|[]]. right. symmetry. exact H.
    - destruct (keqb k' k) eqn:E; simpl; intros [H|H].
      + apply keqb_eq in E. subst k'. right. symmetry. exact H.
      + left. right. exact H.
      + left. left. exact H.
      + destruct (IH H) as [H1|H1]; [left; right; exact H1 | right; exact H1].
  Qed.
End AssocIn.

Lemma range_eqb_eq a b : range_eqb a b = true <-> a = b.
Proof.
  unfold range_eqb. destruct a as [a1 a2], b as [b1 b2]. simpl.
  rewrite andb_true_iff, !Z.eqb_eq. split; [intros [? ?]; subst; reflexivity | intros H; inversion H; auto].
Qed.

(* a pending load was started by an OLoadStart of the history; cached rows were put there by an
   OStore that completed such a load of the same key and range, and carry its load-start moment *)
Definition loaded_by (hp : list op) (k : Z) (tr : Z * Z) (cr : crow) : Prop :=
  exists id tl vs h1 h2 h3,
    hp = h1 ++ OLoadStart id k (fst tr) (snd tr) (cr_loadAt cr) :: h2 ++ OStore id (cr_n cr) (cr_rid cr) tl vs :: h3.

Definition pinv (s : st) (hp : list op) : Prop :=
  (forall id p, In (id, p) (s_pend s) ->
     exists h1 h2, hp = h1 ++ OLoadStart id (p_key p) (p_from p) (p_to p) (p_loadAt p) :: h2) /\
  (forall k e tr cr, In (k, e) (s_cache s) -> In (tr, cr) (e_rows e) -> loaded_by hp k tr cr).

Lemma loaded_by_snoc hp o k tr cr : loaded_by hp k tr cr -> loaded_by (hp ++ [o]) k tr cr.
Proof.
  intros [id [tl [vs [h1 [h2 [h3 E]]]]]]. exists id, tl, vs, h1, h2, (h3 ++ [o]). subst hp.
  rewrite <- !app_assoc. simpl. rewrite <- !app_assoc. reflexivity.
Qed.

Lemma evict_loop_In max vs : forall cache size c1 z1 a1 x,
  evict_loop max vs cache size = (c1, z1, a1) -> In x c1 -> In x cache.
Proof.
  induction vs as [|v vs IH]; intros cache size c1 z1 a1 x H Hin; simpl in H.
  - inversion H; subst. exact Hin.
  - destruct (max <=? size + zlen cache); [|inversion H; subst; exact Hin].
    destruct (afind Z.eqb cache v) as [e|]; [|inversion H; subst; exact Hin].
    destruct (evict_loop max vs (adel Z.eqb cache v) (size - eweight e)) as [[c2 z2] a2] eqn:E.
    inversion H; subst. eapply In_adel. eapply IH; eauto.
Qed.

Lemma pinv_step c s o s' r hp : pinv s hp -> step c s o = (s', r) -> pinv s' (hp ++ [o]).
Proof.
  intros [PP PC] H.
  assert (PP' : forall id p, In (id, p) (s_pend s) ->
     exists h1 h2, hp ++ [o] = h1 ++ OLoadStart id (p_key p) (p_from p) (p_to p) (p_loadAt p) :: h2).
  { intros id p Hin. destruct (PP _ _ Hin) as [h1 [h2 E]]. exists h1, (h2 ++ [o]). subst hp.
    rewrite <- app_assoc. reflexivity. }
  assert (PC' : forall k e tr cr, In (k, e) (s_cache s) -> In (tr, cr) (e_rows e) -> loaded_by (hp ++ [o]) k tr cr).
  { intros. apply loaded_by_snoc. eapply PC; eauto. }
  destruct o; simpl in H.
  - (* lookup: only lru changes *)
    unfold lookup in H. destruct (afind Z.eqb (s_cache s) k) as [e|] eqn:E1.
    + destruct (afind range_eqb (e_rows e) (from, to)) as [cr|] eqn:E2.
      * inversion H; subst; clear H. split; [exact PP'|]. simpl.
        intros k0 e0 tr cr0 Hin Hr. apply (In_aset Z.eqb Z.eqb_eq) in Hin. destruct Hin as [Hin|Hin].
        -- eapply PC'; eauto.
        -- inversion Hin; subst. simpl in Hr. apply (afind_In Z.eqb Z.eqb_eq) in E1. eapply PC'; eauto.
      * inversion H; subst. split; assumption.
    + inversion H; subst. split; assumption.
  - (* load start *)
    inversion H; subst; clear H. split; [|exact PC']. simpl.
    intros id0 p Hin. apply (In_aset Z.eqb Z.eqb_eq) in Hin. destruct Hin as [Hin|Hin].
    + apply PP'. exact Hin.
    + inversion Hin; subst. simpl. exists hp, []. reflexivity.
  - (* store *)
    unfold store in H. destruct (afind Z.eqb (s_pend s) id) as [p|] eqn:Ep.
    + destruct (evict_loop (c_max c) victims (s_cache s) (s_size s)) as [[c1 z1] a1] eqn:Ev.
      inversion H; subst; clear H. simpl. split.
      * intros id0 p0 Hin. apply In_adel in Hin. apply PP'. exact Hin.
      * intros k0 e0 tr cr Hin Hr. apply (In_aset Z.eqb Z.eqb_eq) in Hin. destruct Hin as [Hin|Hin].
        -- eapply PC'; [eapply evict_loop_In; eauto | exact Hr].
        -- inversion Hin; subst; clear Hin. simpl in Hr.
           apply (In_aset range_eqb range_eqb_eq) in Hr. destruct Hr as [Hr|Hr].
           ++ destruct (afind Z.eqb c1 (p_key p)) as [e|] eqn:Ee; [|simpl in Hr; contradiction].
              apply (afind_In Z.eqb Z.eqb_eq) in Ee. eapply PC'; [eapply evict_loop_In; eauto | exact Hr].
           ++ inversion Hr; subst; clear Hr.
              apply (afind_In Z.eqb Z.eqb_eq) in Ep. destruct (PP _ _ Ep) as [h1 [h2 E]].
              exists id, t_lru, victims, h1, h2, []. simpl. subst hp. rewrite <- app_assoc. reflexivity.
    + inversion H; subst. split; assumption.
  - (* drop *)
    inversion H; subst; clear H. split; [|exact PC']. simpl.
    intros id0 p Hin. apply In_adel in Hin. apply PP'. exact Hin.
  - (* invalidate *)
    unfold invalidate in H.
    destruct (fold_left (update_all (c_off c) t_at) secs (s_m0 s, s_m1 s, s_m2 s)) as [[m0 m1] m2].
    inversion H; subst. split; assumption.
Qed.

Lemma pinv_run c h s rs : run c init h = (s, rs) -> pinv s h.
Proof.
  intros H.
  refine (run_app_inv (fun s h => pinv s h) c (fun s o s' r hp => @pinv_step c s o s' r hp) h init [] s rs _ H).
  split; simpl; intros; contradiction.
Qed.

Theorem served_rows_provenance :
  forall c h s rs vg k from to t_lru t_chk s' r cr,
    run c init h = (s, rs) ->
    step c s (OLookup vg k from to t_lru t_chk) = (s', r) ->
    r_found r = Some cr ->
    loaded_by h k (from, to) cr.
Proof.
  intros c h s rs vg k from to t_lru t_chk s' r cr Hrun Hstep Hf.
  destruct (lookup_res _ _ _ _ _ _ _ _ _ _ _ Hstep Hf) as [_ [e [E1 E2]]].
  destruct (pinv_run _ _ _ _ Hrun) as [_ PC].
  apply (afind_In Z.eqb Z.eqb_eq) in E1. apply (afind_In range_eqb range_eqb_eq) in E2.
  eapply PC; eauto.
Qed.

(* the same statement read the other way: a cached result one of whose seconds (inside the mutable
   window) was invalidated at or after load start minus the linger is refused, so get reloads it *)
Theorem invalidated_is_not_served :
  forall c h s rs vg k from to t_lru t_chk s' r cr at_ sec,
    run c init h = (s, rs) ->
    step c s (OLookup vg k from to t_lru t_chk) = (s', r) ->
    r_found r = Some cr ->
    Forall (fun tp => tp <= t_chk) (purge_stamps h) ->
    stamps_fit_int64 (events h) ->
    t_chk + invalidateFromNs <= to * nanos ->
    In (at_, sec) (events h) ->
    Z.max from (unix_of (t_chk + invalidateFromNs)) <= sec <= to ->
    cr_loadAt cr <= at_ + lingerNs ->
    r_valid r = false.
Proof.
  intros c h s rs vg k from to t_lru t_chk s' r cr at_ sec Hrun Hstep Hf Mono Fit Win Hin Hsec Hl.
  destruct (r_valid r) eqn:V; [|reflexivity].
  pose proof (served_implies_no_later_invalidation _ _ _ _ _ _ _ _ _ _ _ _ _ Hrun Hstep Hf V Mono Fit Win _ _ Hin Hsec).
  lia.
Qed.
