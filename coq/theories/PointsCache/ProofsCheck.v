(* C24 — soundness of the hierarchical invalidation check (checkInvalidationLocked /
   checkInvalidationMapLocked): the cells it examines cover every second of the clamped range. *)
From Coq Require Import ZArith List Bool Lia.
From SH Require Import Common.Wrap PointsCache.Model.
Import ListNotations.
Open Scope Z_scope.

(* ---------- int64 ---------- *)
Lemma i64_small x : - two63 <= x < two63 -> i64 x = x.
Proof.
  unfold i64, two63, two64. intros H.
  destruct (Z_lt_ge_dec x 0).
  - replace (x mod 18446744073709551616) with (x + 18446744073709551616).
    + destruct (x + 18446744073709551616 <? 9223372036854775808) eqn:E;
        [apply Z.ltb_lt in E | apply Z.ltb_ge in E]; lia.
    + apply Z.mod_unique with (q := -1); lia.
  - rewrite Z.mod_small by lia.
    destruct (x <? 9223372036854775808) eqn:E; [reflexivity | apply Z.ltb_ge in E; lia].
Qed.

(* ---------- mathDiv / roundTime ---------- *)
Lemma mathDiv_floor a b : 0 < b -> mathDiv a b = a / b.
Proof.
  intros Hb. unfold mathDiv.
  pose proof (Z.quot_rem' a b) as Hqr.
  assert (Hb0 : (0 <=? b) = true) by (apply Z.leb_le; lia).
  rewrite Hb0.
  destruct (0 <=? a) eqn:Ea.
  - apply Z.leb_le in Ea. simpl. apply Z.quot_div_nonneg; lia.
  - apply Z.leb_gt in Ea. simpl.
    pose proof (Z.rem_bound_pos_neg a b ltac:(lia) ltac:(lia)) as Hr.
    destruct (Z.rem a b =? 0) eqn:Er.
    + apply Z.eqb_eq in Er. apply Z.div_unique with (r := 0); lia.
    + apply Z.eqb_neq in Er. apply Z.div_unique with (r := Z.rem a b + b); lia.
Qed.

Lemma roundTime_floor t step off : 0 < step -> roundTime t step off = step * ((t + off) / step) - off.
Proof. intros H. unfold roundTime. rewrite mathDiv_floor by exact H. lia. Qed.

Lemma roundTime_bounds t step off :
  0 < step -> roundTime t step off <= t < roundTime t step off + step.
Proof.
  intros H. rewrite roundTime_floor by exact H.
  pose proof (Z.div_mod (t + off) step ltac:(lia)) as Hd.
  pose proof (Z.mod_pos_bound (t + off) step H). lia.
Qed.

Lemma roundTime_one t off : roundTime t step2 off = t.
Proof. unfold step2. rewrite roundTime_floor by lia. rewrite Z.div_1_r. lia. Qed.

(* ---------- association lists over Z keys ---------- *)
Lemma afind_aset_Z {V} (m : list (Z * V)) k v q :
  afind Z.eqb (aset Z.eqb m k v) q = if k =? q then Some v else afind Z.eqb m q.
Proof.
  induction m as [|[k' v'] m IH]; simpl.
  - reflexivity.
  - destruct (k' =? k) eqn:E1; simpl.
    + apply Z.eqb_eq in E1. subst k'. destruct (k =? q); reflexivity.
    + destruct (k' =? q) eqn:E2.
      * apply Z.eqb_eq in E2. subst k'. rewrite Z.eqb_sym, E1. reflexivity.
      * exact IH.
Qed.

Lemma afind_filter_key (p : Z -> bool) (m : imap) q :
  afind Z.eqb (filter (fun kv => p (fst kv)) m) q = if p q then afind Z.eqb m q else None.
Proof.
  induction m as [|[k' v'] m IH]; simpl.
  - destruct (p q); reflexivity.
  - destruct (p k') eqn:Ep; simpl.
    + destruct (k' =? q) eqn:E.
      * apply Z.eqb_eq in E. subst. rewrite Ep. reflexivity.
      * exact IH.
    + destruct (k' =? q) eqn:E.
      * apply Z.eqb_eq in E. subst. rewrite Ep in *. exact IH.
      * exact IH.
Qed.

(* ---------- scan ---------- *)
Lemma scan_true m loadAt step n : forall i,
  scan m loadAt i step n = true ->
  forall j, (j < n)%nat -> blocked m loadAt (i + Z.of_nat j * step) = false.
Proof.
  induction n as [|n IH]; intros i H j Hj; [lia|].
  simpl in H. destruct (blocked m loadAt i) eqn:B; [discriminate|].
  destruct j as [|j].
  - simpl. rewrite Z.add_0_r. exact B.
  - specialize (IH (i + step) H j ltac:(lia)).
    replace (i + Z.of_nat (S j) * step) with (i + step + Z.of_nat j * step) by lia. exact IH.
Qed.

Lemma chk2_sound m2 loadAt a b s :
  chk2 m2 loadAt a b = true -> a <= s <= b -> blocked m2 loadAt s = false.
Proof.
  unfold chk2, cnt_le, step2. intros H Hs.
  destruct (b <? a) eqn:E; [apply Z.ltb_lt in E; lia|].
  rewrite Z.div_1_r in H.
  pose proof (scan_true _ _ _ _ _ H (Z.to_nat (s - a)) ltac:(lia)) as Hj.
  rewrite Z2Nat.id in Hj by lia. replace (a + (s - a) * 1) with s in Hj by lia. exact Hj.
Qed.

Lemma div_step_pad step k : 0 < step -> (step * k + step - 1) / step = k.
Proof. intros H. symmetry. apply Z.div_unique with (r := step - 1); lia. Qed.

(* one level of checkInvalidationMapLocked: a second of [a,b] is either inside one of the two
   sub-ranges handed to the next level, or its cell lies strictly after a and is looked up here *)
Lemma chk_level_cover step m next off loadAt a b s :
  0 < step ->
  chk_level step m next off loadAt a b = true -> a <= s <= b ->
  (exists a' b', a <= a' /\ a' <= s <= b' /\ next a' b' = true) \/
  (a < roundTime s step off /\ blocked m loadAt (roundTime s step off) = false).
Proof.
  intros Hst H Hs. unfold chk_level in H.
  apply andb_prop in H. destruct H as [H Hmid]. apply andb_prop in H. destruct H as [H1 H2].
  pose proof (roundTime_bounds a step off Hst) as Ba.
  pose proof (roundTime_bounds b step off Hst) as Bb.
  pose proof (roundTime_bounds s step off Hst) as Bs.
  rewrite !roundTime_floor in * by exact Hst.
  set (qa := (a + off) / step) in *. set (qb := (b + off) / step) in *. set (qs := (s + off) / step) in *.
  assert (qa <= qs) by (apply Z.div_le_mono; lia).
  assert (qs <= qb) by (apply Z.div_le_mono; lia).
  destruct (Z.eq_dec qs qa) as [E1|N1].
  - (* same cell as a: first sub-range *)
    left. eexists a, _. split; [lia|]. split; [|exact H1].
    destruct (b <? step * qa - off + step) eqn:E; [apply Z.ltb_lt in E | apply Z.ltb_ge in E]; nia.
  - destruct (Z.eq_dec qs qb) as [E2|N2].
    + (* same cell as b: second sub-range *)
      left. eexists _, b. split; [|split; [|exact H2]].
      * destruct (step * qb - off <? a) eqn:E; [apply Z.ltb_lt in E | apply Z.ltb_ge in E]; nia.
      * destruct (step * qb - off <? a) eqn:E; [apply Z.ltb_lt in E | apply Z.ltb_ge in E]; nia.
    + (* a cell strictly between: looked up at this level *)
      right. split; [nia|].
      unfold cnt_lt in Hmid.
      destruct (step * qb - off <=? step * qa - off + step) eqn:E;
        [apply Z.leb_le in E; nia | apply Z.leb_gt in E].
      replace (step * qb - off - (step * qa - off + step) + step - 1)
        with (step * (qb - qa - 1) + step - 1) in Hmid by lia.
      rewrite div_step_pad in Hmid by exact Hst.
      pose proof (scan_true _ _ _ _ _ Hmid (Z.to_nat (qs - qa - 1)) ltac:(lia)) as Hj.
      rewrite Z2Nat.id in Hj by lia.
      replace (step * qa - off + step + (qs - qa - 1) * step) with (step * qs - off) in Hj by lia.
      exact Hj.
Qed.

(* the three levels together *)
Lemma chk0_cover m0 m1 m2 off loadAt a b s :
  chk0 m0 m1 m2 off loadAt a b = true -> a <= s <= b ->
  blocked m2 loadAt s = false \/
  (a < roundTime s step1 off /\ blocked m1 loadAt (roundTime s step1 off) = false) \/
  (a < roundTime s step0 off /\ blocked m0 loadAt (roundTime s step0 off) = false).
Proof.
  intros H Hs. unfold chk0 in H.
  destruct (chk_level_cover step0 _ _ _ _ _ _ s ltac:(unfold step0; lia) H Hs) as [[a' [b' [Ha [Hs' Hn]]]]|R].
  - unfold chk1 in Hn.
    destruct (chk_level_cover step1 _ _ _ _ _ _ s ltac:(unfold step1; lia) Hn Hs') as [[a'' [b'' [Ha' [Hs'' Hn']]]]|R].
    + left. eapply chk2_sound; eauto.
    + right. left. destruct R. split; [lia | assumption].
  - right. right. exact R.
Qed.

(* the clamp of checkInvalidationLocked: from' = max(from, unix(now - 48h)) *)
Lemma clamp_is_max from imm :
  (if from * nanos <? imm then unix_of imm else from) = Z.max from (unix_of imm).
Proof.
  unfold unix_of, nanos.
  pose proof (Z.div_mod imm 1000000000 ltac:(lia)).
  pose proof (Z.mod_pos_bound imm 1000000000 ltac:(lia)).
  destruct (from * 1000000000 <? imm) eqn:E; [apply Z.ltb_lt in E | apply Z.ltb_ge in E]; lia.
Qed.

Lemma unix_of_mono a b : a <= b -> unix_of a <= unix_of b.
Proof. intros. unfold unix_of, nanos. apply Z.div_le_mono; lia. Qed.
