(* C08 — the bytes hashed for the resolution shard (OriginalMarshalAppend over OriginalTagValues filled by
   mapAllTags) do not depend on the mapping cache nor on the order of the event's tags. *)
From Coq Require Import ZArith List Bool Lia Permutation.
From SH Require Import Common.Wrap AgentQueue.Model.
Import ListNotations.
Open Scope Z_scope.

Definition otv_eq (h1 h2 : header) : Prop := forall j, h_otv h1 j = h_otv h2 j.

Lemma map_tag_otv c1 r1 c2 r2 h1 h2 t :
  otv_eq h1 h2 -> otv_eq (map_tag c1 r1 h1 t) (map_tag c2 r2 h2 t).
Proof.
  intros H j. unfold map_tag. destruct (t_kind t) as [| |[|]]; cbn; try apply H.
  - rewrite H. reflexivity.
  - rewrite H. reflexivity.
  - destruct (is_nil (t_value t)); cbn; rewrite H; reflexivity.
Qed.

Lemma fold_otv c1 r1 c2 r2 ts : forall h1 h2,
  otv_eq h1 h2 -> otv_eq (fold_left (map_tag c1 r1) ts h1) (fold_left (map_tag c2 r2) ts h2).
Proof. induction ts as [|t ts IH]; intros h1 h2 H; [exact H|]. cbn. apply IH, map_tag_otv, H. Qed.

Lemma map_tag_swap c r h t1 t2 :
  t_index t1 <> t_index t2 -> otv_eq (map_tag c r (map_tag c r h t1) t2) (map_tag c r (map_tag c r h t2) t1).
Proof.
  intros Hne j. unfold map_tag.
  destruct (t_kind t1) as [| |[|]], (t_kind t2) as [| |[|]]; cbn; try reflexivity;
  repeat match goal with |- context [is_nil ?x] => destruct (is_nil x); cbn end; try reflexivity;
  destruct (j =? t_index t1) eqn:E1, (j =? t_index t2) eqn:E2; cbn; try reflexivity;
  apply Z.eqb_eq in E1; apply Z.eqb_eq in E2; congruence.
Qed.

Lemma fold_perm c r ts ts' :
  Permutation ts ts' -> NoDup (map t_index ts) ->
  forall h, otv_eq (fold_left (map_tag c r) ts h) (fold_left (map_tag c r) ts' h).
Proof.
  induction 1 as [|x l l' Hp IH|x y l|l l' l'' Hp1 IH1 Hp2 IH2]; intros Hnd h.
  - intros j; reflexivity.
  - cbn. inversion Hnd; subst. apply IH; assumption.
  - cbn. apply fold_otv. apply map_tag_swap. cbn in Hnd. inversion Hnd as [|? ? Hn _]; subst.
    intros E. apply Hn. left. symmetry. exact E.
  - intros j. rewrite (IH1 Hnd h j). apply IH2. eapply Permutation_NoDup; [apply Permutation_map, Hp1|exact Hnd].
Qed.

Lemma tags_count_ext o1 o2 n : (forall j, o1 j = o2 j) -> tags_count o1 n = tags_count o2 n.
Proof. intros H. induction n as [|k IH]; [reflexivity|]. cbn. rewrite H, IH. reflexivity. Qed.

Lemma original_marshal_ext m o1 o2 : (forall j, o1 j = o2 j) -> original_marshal m o1 = original_marshal m o2.
Proof.
  intros H. unfold original_marshal. rewrite (tags_count_ext o1 o2 _ H).
  f_equal. f_equal. apply flat_map_ext. intros k. rewrite H. reflexivity.
Qed.

(* same metric, same set of (tag index, original value): same bytes whatever the caches and the tag order *)
Theorem original_bytes_independent m c1 r1 c2 r2 ts ts' :
  Permutation ts ts' -> NoDup (map t_index ts) ->
  original_marshal m (h_otv (map_all_tags c1 r1 ts)) = original_marshal m (h_otv (map_all_tags c2 r2 ts')).
Proof.
  intros Hp Hnd. apply original_marshal_ext. intros j. unfold map_all_tags.
  rewrite (fold_perm c1 r1 ts ts' Hp Hnd empty_header j).
  apply fold_otv. intros k; reflexivity.
Qed.

(* the bytes OriginalHash hashes do not depend on what the reused scratch buffer held *)
Lemma hash_bytes_scratch s1 s2 m otv : original_hash_bytes s1 m otv = original_hash_bytes s2 m otv.
Proof. reflexivity. Qed.

Theorem hashed_bytes_independent s1 s2 m c1 r1 c2 r2 ts ts' :
  Permutation ts ts' -> NoDup (map t_index ts) ->
  original_hash_bytes s1 m (h_otv (map_all_tags c1 r1 ts)) = original_hash_bytes s2 m (h_otv (map_all_tags c2 r2 ts')).
Proof.
  intros Hp Hnd. unfold original_hash_bytes, original_marshal_append. cbn [firstn app].
  apply original_bytes_independent; assumption.
Qed.
