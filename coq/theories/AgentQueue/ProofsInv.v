(* C08 — the ring invariant of the agent super-queue and its preservation by every operation. *)
From Coq Require Import ZArith List Bool Lia Permutation Sorted.
From SH Require Import Common.Wrap Gen.AgentQueueConsts AgentQueue.Model AgentQueue.ProofsPlace.
Import ListNotations.
Open Scope Z_scope.
Ltac Zify.zify_post_hook ::= Z.to_euclidean_division_equations.

Ltac split_ands := repeat match goal with |- _ /\ _ => split end.

(* ---------- where the rows are ---------- *)

Definition idxs : list Z := map Z.of_nat (seq 0 (Z.to_nat queue_len)).
Definition ring_items (st : state) : list item := flat_map (ring st) idxs.
Definition chan_list (st : state) : list bucket := match chan st with Some b => [b] | None => [] end.
(* every bucket ever handed to BucketsToPreprocess, in order *)
Definition delivered (st : state) : list bucket := out st ++ chan_list st.
Definition all_items (st : state) : list item := ring_items st ++ flat_map b_items (delivered st).

Lemma idxs_in i : In i idxs <-> 0 <= i < queue_len.
Proof.
  unfold idxs. rewrite in_map_iff. split.
  - intros (n & <- & Hn). apply in_seq in Hn. unfold queue_len in *. lia.
  - intros H. exists (Z.to_nat i). split; [lia|]. apply in_seq. unfold queue_len in *. lia.
Qed.
Lemma idxs_nodup : NoDup idxs.
Proof.
  unfold idxs. apply FinFun.Injective_map_NoDup; [|apply seq_NoDup].
  intros a b H. lia.
Qed.

Lemma flat_map_upd_notin (r : Z -> list item) i v l :
  ~ In i l -> flat_map (fun j => if j =? i then v else r j) l = flat_map r l.
Proof.
  induction l as [|a l IH]; intros H; [reflexivity|]. cbn. rewrite IH by (intros X; apply H; right; exact X).
  destruct (a =? i) eqn:E; [apply Z.eqb_eq in E; subst; exfalso; apply H; left; reflexivity | reflexivity].
Qed.

Lemma flat_map_add (r : Z -> list item) i x l :
  NoDup l -> In i l -> Permutation (flat_map (fun j => if j =? i then x :: r i else r j) l) (x :: flat_map r l).
Proof.
  induction l as [|a l IH]; intros Hnd Hin; [destruct Hin|].
  inversion Hnd as [|? ? Hna Hnd']; subst. cbn.
  destruct (a =? i) eqn:E.
  - apply Z.eqb_eq in E; subst a. rewrite flat_map_upd_notin by exact Hna. reflexivity.
  - apply Z.eqb_neq in E. destruct Hin as [->|Hin]; [congruence|].
    rewrite (IH Hnd' Hin). apply Permutation_sym, Permutation_middle.
Qed.

Lemma flat_map_clear (r : Z -> list item) i l :
  NoDup l -> In i l -> Permutation (flat_map r l) (r i ++ flat_map (fun j => if j =? i then [] else r j) l).
Proof.
  induction l as [|a l IH]; intros Hnd Hin; [destruct Hin|].
  inversion Hnd as [|? ? Hna Hnd']; subst. cbn.
  destruct (a =? i) eqn:E.
  - apply Z.eqb_eq in E; subst a. rewrite flat_map_upd_notin by exact Hna. reflexivity.
  - apply Z.eqb_neq in E. destruct Hin as [->|Hin]; [congruence|].
    rewrite (IH Hnd' Hin) at 1. rewrite !app_assoc. apply Permutation_app_tail, Permutation_app_comm.
Qed.

(* ---------- the invariant ---------- *)

(* the second under which a buffered row will be sent, as of now *)
Definition vslot (st : state) (it : item) : Z := i_slot it + (jumped st - i_jmp it).

(* facts about a row fixed when it was stored *)
Definition row_ok (it : item) : Prop :=
  res_ok (i_res it) /\ i_ts it = (i_cts it / i_res it) * i_res it /\
  i_ts it <= i_cts it < i_ts it + i_res it /\ i_cts it <= i_slot it /\ 0 < i_cts it.

Definition later (a b : bucket) : Prop := b_time b < b_time a.

Record Inv (st : state) : Prop := mkInv {
  inv_cur : clock_ok (cur st);
  inv_snd : 0 <= sendt st /\ sendt st + queue_len < two32;
  inv_ring : forall i it, In it (ring st i) ->
      row_ok it /\ i = i_slot it mod queue_len /\ sendt st <= vslot st it < sendt st + queue_len /\
      (jumped st - i_jmp it) mod queue_len = 0 /\ i_jmp it <= jumped st;
  inv_out : forall b it, In b (delivered st) -> In it (b_items b) ->
      row_ok it /\ b_time b = i_slot it + (b_jmp b - i_jmp it) /\
      (b_jmp b - i_jmp it) mod queue_len = 0 /\ i_jmp it <= b_jmp b /\ b_jmp b <= jumped st;
  inv_times : StronglySorted later (rev (delivered st)) /\ Forall (fun b => b_time b < sendt st) (delivered st);
  inv_perm : Permutation (all_items st) (acc st)
}.

Lemma inv_init now hw_ hwslow_ stres_ : clock_ok now -> Inv (init_state now hw_ hwslow_ stres_).
Proof.
  intros Hc. assert (E : u32 now = now) by (apply u32_id; unfold clock_ok, is_u32, queue_len, two32 in *; lia).
  unfold init_state. rewrite E.
  assert (E2 : u32 (now - 2) = now - 2) by (apply u32_id; unfold clock_ok, is_u32, queue_len, two32 in *; lia). rewrite E2.
  constructor; cbn.
  - exact Hc.
  - unfold clock_ok, queue_len, two32 in *. lia.
  - intros i it [].
  - unfold delivered, chan_list. cbn. intros b it [].
  - unfold delivered, chan_list. cbn. split; constructor.
  - unfold all_items, ring_items, delivered, chan_list. cbn.
    assert (X : forall l : list Z, flat_map (fun _ : Z => @nil item) l = []) by (induction l; auto). rewrite X. constructor.
Qed.

(* ---------- accepting ---------- *)

Lemma ring_items_add st i it :
  0 <= i < queue_len -> Permutation (ring_items (add_row st i it)) (it :: ring_items st).
Proof. intros H. unfold ring_items. cbn. apply flat_map_add; [apply idxs_nodup | apply idxs_in; exact H]. Qed.

Lemma apply_core_inv st id ts res hash dropb st' r :
  Inv st -> res_ok res -> 0 <= ts < two32 ->
  apply_core st id ts res hash dropb = (st', r) ->
  Inv st' /\
  match r with
  | ADropped DStop => stop st = true /\ st' = st
  | ADropped DGap => stop st = false /\ 0 < gap st /\ st' = st
  | ADropped DBefore => stop st = false /\ gap st <= 0 /\ st' = st /\
        (clamp_pure (cur st) ts / res) * res < dropb
  | AAccepted it cl =>
      stop st = false /\ gap st <= 0 /\ acc st' = it :: acc st /\ row_ok it /\
      i_id it = id /\ i_res it = res /\ i_cts it = clamp_pure (cur st) ts /\ dropb <= i_ts it /\
      cl = (cur st + future_slots <? (if ts =? 0 then cur st else ts)) /\ i_jmp it = jumped st /\
      sendt st <= i_slot it < sendt st + queue_len /\
      (sendt st <= nominal_slot (i_cts it) res hash -> i_slot it = nominal_slot (i_cts it) res hash) /\
      In it (ring st' (i_slot it mod queue_len)) /\
      cur st' = cur st /\ sendt st' = sendt st /\ jumped st' = jumped st /\ stop st' = stop st /\
      hw st' = hw st /\ hwslow st' = hwslow st /\ stres st' = stres st
  end.
Proof.
  intros HI Hr Ht Ha. unfold apply_core in Ha.
  destruct (stop st) eqn:Es; [inversion Ha; subst; auto|].
  destruct (0 <? gap st) eqn:Eg; [apply Z.ltb_lt in Eg; inversion Ha; subst; auto | apply Z.ltb_ge in Eg].
  destruct (place (cur st) (sendt st) ts res hash) as [[slot kts] cl] eqn:Ep.
  pose proof HI as HI0. destruct HI as [Hc Hs Hring Hout Htimes Hperm].
  assert (Hg : cur st <= sendt st + gap_slack) by (unfold gap in Eg; lia).
  destruct (clamp_ts_spec (cur st) ts Hc Ht) as (Ef & _ & Hcts).
  pose proof (place_spec _ _ _ _ _ _ _ _ Hc (proj1 Hs) (proj2 Hs) Hg Ht Hr Ep) as (Hcl & Hk & Hkr & Hcs & Hwin & Hlt & Hnom & _).
  cbv zeta in Hk, Hkr, Hcs, Hnom.
  destruct (kts <? dropb) eqn:Ed; [apply Z.ltb_lt in Ed; inversion Ha; subst st' r; split; [exact HI0|]; split_ands; auto; rewrite <- Hk; exact Ed | apply Z.ltb_ge in Ed].
  inversion Ha; subst st' r; clear Ha. rewrite Ef.
  set (it := mkItem id kts (clamp_pure (cur st) ts) res slot (jumped st)).
  assert (Hrow : row_ok it) by (unfold row_ok; cbn; split_ands; try lia; apply Hr).
  assert (Hi : 0 <= slot mod queue_len < queue_len) by (unfold queue_len; lia).
  split.
  - constructor; cbn; auto.
    + intros i x Hin. destruct (i =? slot mod queue_len) eqn:Ei.
      * apply Z.eqb_eq in Ei. subst i. destruct Hin as [Hx|Hin]; [subst x|apply Hring; exact Hin].
        unfold vslot; cbn. split_ands; auto; try apply Hrow; try lia. rewrite Z.sub_diag. reflexivity.
      * apply Hring; exact Hin.
    + unfold all_items. change (delivered (add_row st (slot mod queue_len) it)) with (delivered st).
      rewrite (ring_items_add st _ it Hi). cbn. constructor. exact Hperm.
  - cbn. rewrite Z.eqb_refl.
    split; [reflexivity|]. split; [exact Eg|]. split; [reflexivity|]. split; [exact Hrow|].
    split_ands; auto; try lia; try (left; reflexivity).
Qed.

Lemma apply_inv st id ts mi hash dropb ws st' r :
  Inv st -> res_ok (resolve_resolution (hw st) (hwslow st) mi) -> res_ok (u32 (stres st)) -> 0 <= ts < two32 ->
  apply st id ts mi hash dropb ws = (st', r) ->
  Inv st' /\ cur st' = cur st /\ sendt st' = sendt st /\ jumped st' = jumped st /\
  hw st' = hw st /\ hwslow st' = hwslow st /\ stres st' = stres st /\ (stop st = true -> stop st' = true).
Proof.
  intros HI Hr Hsr Ht Ha. unfold apply in Ha.
  destruct (apply_core st id ts (resolve_resolution (hw st) (hwslow st) mi) hash dropb) as [st1 r1] eqn:E1.
  destruct (apply_core_inv _ _ _ _ _ _ _ _ HI Hr Ht E1) as (HI1 & Hres).
  destruct r1 as [why|it cl].
  - inversion Ha; subst st' r.
    assert (Est : st1 = st) by (destruct why; intuition auto).
    subst st1. split; [exact HI|]. split_ands; auto.
  - destruct Hres as (Hs & Hg & Hacc & Hrow & Hid & Hres' & Hcts & Hdr & Hcl & Hj & Hw & Hn & Hin & Ec & Esn & Ej & Est & Ehw & Ehs & Esr).
    assert (Hbase : Inv st1 /\ cur st1 = cur st /\ sendt st1 = sendt st /\ jumped st1 = jumped st /\
       hw st1 = hw st /\ hwslow st1 = hwslow st /\ stres st1 = stres st /\ (stop st = true -> stop st1 = true))
      by (split; [exact HI1|]; split_ands; auto; congruence).
    destruct cl; [destruct ws|]; inversion Ha; subst st' r; try exact Hbase.
    destruct (apply_core st1 status_id (i_ts it) (u32 (stres st)) 0 dropb) as [st2 r2] eqn:E2. cbn [fst].
    assert (Hts : 0 <= i_ts it < two32).
    { destruct Hrow as (Hro & Hk & Hkr & Hcs & Hpos). destruct (inv_cur _ HI). unfold clock_ok, queue_len, two32, future_slots in *.
      pose proof (clamp_ts_spec (cur st) ts (inv_cur _ HI) Ht) as (_ & _ & Hb). unfold future_slots in Hb.
      unfold res_ok, max_resolution in Hro. rewrite Hk.
      pose proof (round_down (i_cts it) (i_res it) ltac:(lia) ltac:(lia)). rewrite Hcts in *. lia. }
    destruct (apply_core_inv _ _ _ _ _ _ _ _ HI1 Hsr Hts E2) as (HI2 & Hres2).
    destruct r2 as [why|it2 cl2].
    + assert (Est2 : st2 = st1) by (destruct why; intuition auto).
      subst st2. exact Hbase.
    + destruct Hres2 as (_ & _ & _ & _ & _ & _ & _ & _ & _ & _ & _ & _ & _ & Ec2 & Esn2 & Ej2 & Est2 & Ehw2 & Ehs2 & Esr2).
      split; [exact HI2|]. split_ands; auto; congruence.
Qed.

(* ---------- sending ---------- *)

Lemma delivered_push st b : delivered (push_bucket st b) = delivered st ++ [b].
Proof. unfold delivered, push_bucket, chan_list. destruct (chan st); cbn; [rewrite <- app_assoc|rewrite app_nil_r]; reflexivity. Qed.

Lemma push_fields st b :
  cur (push_bucket st b) = cur st /\ sendt (push_bucket st b) = sendt st /\ ring (push_bucket st b) = ring st /\
  jumped (push_bucket st b) = jumped st /\ acc (push_bucket st b) = acc st /\ stop (push_bucket st b) = stop st /\
  hw (push_bucket st b) = hw st /\ hwslow (push_bucket st b) = hwslow st /\ stres (push_bucket st b) = stres st.
Proof. unfold push_bucket. destruct (chan st); cbn; split_ands; reflexivity. Qed.

Lemma delivered_drain st : delivered (fst (drain st)) = delivered st.
Proof. unfold delivered, drain, chan_list. destruct (chan st) eqn:E; cbn; rewrite ?E, ?app_nil_r; reflexivity. Qed.

Lemma mod_shift a b : b mod queue_len = 0 -> (a + b) mod queue_len = a mod queue_len.
Proof. unfold queue_len. intros. lia. Qed.

Lemma single_step_inv se st :
  Inv st -> sendt st + 1 + queue_len < two32 ->
  let st' := fst (single_step se st) in
  Inv st' /\ sendt st' = sendt st + 1 /\ cur st' = cur st /\ jumped st' = jumped st /\ acc st' = acc st /\
  stop st' = stop st /\ hw st' = hw st /\ hwslow st' = hwslow st /\ stres st' = stres st /\
  (forall i it, In it (ring st' i) -> In it (ring st i)).
Proof.
  intros [Hc Hs Hring Hout Htimes Hperm] Hb. unfold single_step.
  assert (E : u32 (sendt st + 1) = sendt st + 1) by (apply u32_id; unfold is_u32, queue_len, two32 in *; lia).
  rewrite E.
  set (i0 := sendt st mod queue_len).
  assert (Hi0 : 0 <= i0 < queue_len) by (subst i0; unfold queue_len; lia).
  (* rows not in slot i0 are sent strictly later; rows in slot i0 are sent exactly now *)
  assert (Hother : forall i it, In it (ring st i) -> i <> i0 -> sendt st + 1 <= vslot st it).
  { intros i it Hin Hne. destruct (Hring i it Hin) as (_ & Hi & Hw & Hm & _).
    assert (vslot st it mod queue_len = i) by (unfold vslot; rewrite mod_shift by exact Hm; auto).
    subst i0. unfold queue_len in *. lia. }
  assert (Hnow : forall it, In it (ring st i0) -> vslot st it = sendt st).
  { intros it Hin. destruct (Hring i0 it Hin) as (_ & Hi & Hw & Hm & _).
    assert (vslot st it mod queue_len = i0) by (unfold vslot; rewrite mod_shift by exact Hm; auto).
    subst i0. unfold queue_len in *. lia. }
  destruct (is_nil (ring st i0) && negb se) eqn:Eskip; cbn [fst].
  - (* empty bucket skipped *)
    assert (Hnil : ring st i0 = []) by (destruct (ring st i0); [reflexivity | discriminate]).
    split; [|cbn; split_ands; auto].
    constructor; cbn; auto.
    + unfold queue_len, two32 in *. lia.
    + intros i it Hin. destruct (Hring i it Hin) as (Hr & Hi & Hw & Hm & Hj). split_ands; auto; try lia.
      * assert (i <> i0) by (intros ->; rewrite Hnil in Hin; destruct Hin). specialize (Hother i it Hin H). unfold vslot in *. cbn. lia.
      * unfold vslot in *. cbn. lia.
    + change (delivered (set_snd st (sendt st + 1) (jumped st))) with (delivered st). split; [apply Htimes|].
      eapply Forall_impl; [|apply Htimes]. cbn. intros; lia.
  - set (b := (sendt st, jumped st, ring st i0) : bucket).
    match goal with |- context [push_bucket ?s b] => set (s1 := s) end.
    assert (Es1 : cur s1 = cur st /\ sendt s1 = sendt st + 1 /\ ring s1 = upd (ring st) i0 [] /\ jumped s1 = jumped st /\
                  acc s1 = acc st /\ stop s1 = stop st /\ hw s1 = hw st /\ hwslow s1 = hwslow st /\ stres s1 = stres st /\
                  delivered s1 = delivered st) by (split_ands; reflexivity).
    destruct Es1 as (Sc & Ss & Sr & Sj & Sa & Sst & Shw & Shs & Ssr & Sd).
    destruct (push_fields s1 b) as (Pc & Ps & Pr & Pj & Pa & Pst & Phw & Phs & Psr).
    rewrite Sc in Pc; rewrite Ss in Ps; rewrite Sr in Pr; rewrite Sj in Pj; rewrite Sa in Pa; rewrite Sst in Pst;
    rewrite Shw in Phw; rewrite Shs in Phs; rewrite Ssr in Psr.
    split; [|rewrite Pc, Ps, Pr, Pj, Pa, Pst, Phw, Phs, Psr; split_ands; auto].
    2:{ intros i it. unfold upd. destruct (i =? i0); intros H; [destruct H | exact H]. }
    constructor.
    + rewrite Pc. exact Hc.
    + rewrite Ps. unfold queue_len, two32 in *; lia.
    + intros i it Hin. rewrite Pr in Hin.
      assert (Hin' : In it (ring st i) /\ i <> i0).
      { unfold upd in Hin. destruct (i =? i0) eqn:Ei; [destruct Hin|]. apply Z.eqb_neq in Ei; auto. }
      destruct Hin' as (Hin' & Hne). destruct (Hring i it Hin') as (Hr & Hi & Hw & Hm & Hj).
      specialize (Hother i it Hin' Hne).
      unfold vslot in *. rewrite Pj, Ps. split_ands; auto; lia.
    + rewrite delivered_push, Sd. intros b' it Hb' Hit.
      rewrite Pj. apply in_app_or in Hb'. destruct Hb' as [Hb'|[<-|[]]].
      * apply Hout; assumption.
      * cbn in Hit. destruct (Hring i0 it Hit) as (Hr & Hi & Hw & Hm & Hj). specialize (Hnow it Hit).
        unfold b_time, b_jmp, vslot in *. cbn. split_ands; auto; lia.
    + rewrite delivered_push, Ps, Sd.
      destruct Htimes as (Hss & Hfa). split.
      * rewrite rev_unit. constructor; [exact Hss|]. apply Forall_rev. eapply Forall_impl; [|exact Hfa]. intros a Ha. unfold later. cbn. exact Ha.
      * apply Forall_app. split; [eapply Forall_impl; [|exact Hfa]; cbn; intros; lia|]. constructor; [cbn; lia|constructor].
    + rewrite Pa. unfold all_items. rewrite delivered_push, Sd.
      assert (Er : ring_items (push_bucket s1 b) = flat_map (fun j => if j =? i0 then [] else ring st j) idxs)
        by (unfold ring_items; rewrite Pr; reflexivity).
      rewrite Er.
      rewrite flat_map_app. cbn [flat_map b_items b snd]. rewrite app_nil_r.
      etransitivity; [|exact Hperm]. unfold all_items, ring_items.
      rewrite (flat_map_clear (ring st) i0 idxs idxs_nodup (proj2 (idxs_in i0) Hi0)).
      set (A := ring st i0). set (B := flat_map (fun j : Z => if j =? i0 then [] else ring st j) idxs). set (C := flat_map b_items (delivered st)).
      rewrite <- !app_assoc. etransitivity; [apply Permutation_app_head, Permutation_app_comm|].
      rewrite !app_assoc. apply Permutation_app_tail, Permutation_app_comm.
Qed.
