(* C08 — arithmetic of the slot choice (resolutionShardFromHashLocked) and of the jump-ahead of flushBuckets.
   All uint32 wraps of the model are discharged here from the clock-domain hypotheses. *)
From Coq Require Import ZArith List Bool Lia.
From SH Require Import Common.Wrap Gen.AgentQueueConsts AgentQueue.Model.
Import ListNotations.
Open Scope Z_scope.
Ltac Zify.zify_post_hook ::= Z.to_euclidean_division_equations.

(* Side conditions over the generated constants: why accepted slots stay inside one turn of the ring. *)
Lemma consts_ok :
  0 < queue_len /\ 0 <= future_slots /\ 0 <= gap_slack /\ 1 <= max_resolution /\
  2 * max_resolution - 1 + future_slots + gap_slack < queue_len /\
  two32 mod queue_len = 0 /\
  Forall (fun r => 1 <= r <= max_resolution) allowed_resolutions.
Proof. vm_compute. repeat split; try discriminate; repeat constructor; discriminate. Qed.

Definition res_ok (r : Z) : Prop := 1 <= r <= max_resolution.

(* the clock domain in which no uint32 operation of the model wraps *)
Definition clock_ok (now : Z) : Prop := queue_len <= now /\ now + 2 * queue_len < two32.

(* The state-independent slot of a row: depends on the clamped timestamp, the resolution and the hash only. *)
Definition nominal_slot (cts res hash : Z) : Z :=
  if res =? 1 then cts else (cts / res) * res + res + ((hash mod two32) * res) / two32.

Definition clamp_pure (cur_ ts : Z) : Z :=
  let ts0 := if ts =? 0 then cur_ else ts in Z.min ts0 (cur_ + future_slots).

Lemma clamp_ts_spec cur_ ts :
  clock_ok cur_ -> 0 <= ts < two32 ->
  fst (clamp_ts cur_ ts) = clamp_pure cur_ ts /\
  snd (clamp_ts cur_ ts) = (cur_ + future_slots <? (if ts =? 0 then cur_ else ts)) /\
  0 < clamp_pure cur_ ts <= cur_ + future_slots.
Proof.
  unfold clock_ok, clamp_ts, clamp_pure, u32, queue_len, future_slots, two32. intros Hc Ht.
  assert (E : (cur_ + 3) mod 4294967296 = cur_ + 3) by lia. rewrite E.
  destruct (ts =? 0) eqn:E0; [apply Z.eqb_eq in E0 | apply Z.eqb_neq in E0];
  match goal with |- context [?a <? ?b] => destruct (a <? b) eqn:E1; [apply Z.ltb_lt in E1 | apply Z.ltb_ge in E1] end;
  cbn [fst snd]; lia.
Qed.

Lemma shard_num_range hash res :
  1 <= res <= 60 -> 0 <= resolution_shard_num hash res < res /\ resolution_shard_num hash res = ((hash mod two32) * res) / two32.
Proof.
  intros Hr. unfold resolution_shard_num, u32, u64, two32, two64.
  pose proof (Z.mod_pos_bound hash 4294967296 ltac:(lia)) as Hh.
  set (h := hash mod 4294967296) in *.
  assert (0 <= h * res < 4294967296 * 60) by nia.
  assert (E1 : (h * res) mod 18446744073709551616 = h * res) by (apply Z.mod_small; lia). rewrite E1.
  assert (0 <= h * res / 4294967296 < res) by nia.
  assert (E2 : (h * res / 4294967296) mod 4294967296 = h * res / 4294967296) by (apply Z.mod_small; lia). rewrite E2.
  lia.
Qed.

Lemma round_down x r : 1 <= r -> 0 <= x -> 0 <= x / r * r <= x /\ x < x / r * r + r.
Proof.
  intros Hr Hx. pose proof (Z.div_mod x r ltac:(lia)). pose proof (Z.mod_pos_bound x r ltac:(lia)).
  pose proof (Z.div_pos x r Hx ltac:(lia)). pose proof (Z.mul_nonneg_nonneg (x / r) r ltac:(lia) ltac:(lia)).
  replace (x / r * r) with (r * (x / r)) by ring. lia.
Qed.
Lemma round_up x r : 1 <= r -> 0 <= x -> x <= (x + r - 1) / r * r < x + r.
Proof. intros. nia. Qed.

(* everything the queue proofs need to know about one call of resolutionShardFromHashLocked *)
Lemma place_spec cur_ snd_ ts res hash slot kts cl :
  clock_ok cur_ -> 0 <= snd_ -> snd_ + queue_len < two32 -> cur_ <= snd_ + gap_slack -> 0 <= ts < two32 -> res_ok res ->
  place cur_ snd_ ts res hash = (slot, kts, cl) ->
  let cts := clamp_pure cur_ ts in
  cl = (cur_ + future_slots <? (if ts =? 0 then cur_ else ts)) /\
  kts = (cts / res) * res /\ kts <= cts < kts + res /\
  cts <= slot /\ snd_ <= slot < snd_ + queue_len /\ slot < two32 /\
  (snd_ <= nominal_slot cts res hash -> slot = nominal_slot cts res hash) /\
  (nominal_slot cts res hash < snd_ -> slot < snd_ + res).
Proof.
  intros Hc Hs Hs2 Hg Ht Hr Hp cts.
  destruct (clamp_ts_spec cur_ ts Hc Ht) as (Ef & Es & Hcts). fold cts in Ef, Hcts.
  unfold place in Hp. destruct (clamp_ts cur_ ts) as [ts1 c1]. cbn [fst snd] in Ef, Es. subst ts1 c1.
  unfold nominal_slot.
  unfold clock_ok, res_ok, queue_len, future_slots, gap_slack, max_resolution, two32 in *.
  destruct (res =? 1) eqn:E1.
  - apply Z.eqb_eq in E1. subst res.
    destruct (cts <? snd_) eqn:E2; [apply Z.ltb_lt in E2 | apply Z.ltb_ge in E2]; inversion Hp; subst; clear Hp;
    rewrite Z.div_1_r, Z.mul_1_r; repeat split; try lia.
  - apply Z.eqb_neq in E1.
    destruct (shard_num_range hash res ltac:(lia)) as (Hn & En).
    unfold lowres_slot in Hp. unfold two32 in En. rewrite <- En.
    set (n := resolution_shard_num hash res) in *. clearbody n. clear En.
    pose proof (round_down cts res ltac:(lia) ltac:(lia)) as Hq.
    set (k := cts / res * res) in *. clearbody k.
    unfold u32, two32 in Hp.
    assert (Ek : k mod 4294967296 = k) by (apply Z.mod_small; lia). rewrite Ek in Hp.
    assert (Ekr : (k + res) mod 4294967296 = k + res) by (apply Z.mod_small; lia). rewrite Ekr in Hp.
    assert (Es0 : (k + res + n) mod 4294967296 = k + res + n) by (apply Z.mod_small; lia). rewrite Es0 in Hp.
    destruct (k + res + n <? snd_) eqn:E2; [apply Z.ltb_lt in E2 | apply Z.ltb_ge in E2].
    + set (x := snd_ - (k + res + n)) in *.
      assert (Hx : 0 < x < 4294967296) by (subst x; lia).
      assert (Ex : x mod 4294967296 = x) by (apply Z.mod_small; lia). rewrite Ex in Hp.
      assert (Ex1 : (x + res) mod 4294967296 = x + res) by (apply Z.mod_small; lia). rewrite Ex1 in Hp.
      assert (Ex2 : (x + res - 1) mod 4294967296 = x + res - 1) by (apply Z.mod_small; lia). rewrite Ex2 in Hp.
      pose proof (round_up x res ltac:(lia) ltac:(lia)) as Hd.
      set (d := (x + res - 1) / res * res) in *. clearbody d.
      assert (Ed : d mod 4294967296 = d) by (apply Z.mod_small; lia). rewrite Ed in Hp.
      assert (Ef : (k + res + n + d) mod 4294967296 = k + res + n + d) by (apply Z.mod_small; subst x; lia). rewrite Ef in Hp.
      inversion Hp; subst slot kts cl; clear Hp. subst x. repeat split; try lia.
    + inversion Hp; subst slot kts cl; clear Hp. repeat split; try lia.
Qed.

(* the jump-ahead of flushBuckets: a positive multiple of the ring length, landing in [cur-125, cur+2] *)
Lemma jump_spec (c s : Z) :
  clock_ok c -> 0 <= s < two32 ->
  let lim := u32 (c - (queue_len - future_slots)) in
  lim = c - (queue_len - future_slots) /\
  (s < lim ->
   let d := u32 ((u32 (u32 (u32 (lim - s) + queue_len) - 1) / queue_len) * queue_len) in
   0 < d /\ d mod queue_len = 0 /\ lim <= s + d < lim + queue_len /\ u32 (s + d) = s + d).
Proof.
  unfold clock_ok, u32, queue_len, future_slots, two32. intros Hc Hs. cbv zeta.
  assert (E : (c - (128 - 3)) mod 4294967296 = c - 125) by (rewrite Z.mod_small; lia).
  rewrite E. split; [lia|]. intros Hlt.
  assert (E1 : (c - 125 - s) mod 4294967296 = c - 125 - s) by (apply Z.mod_small; lia). rewrite E1.
  assert (E2 : (c - 125 - s + 128) mod 4294967296 = c - 125 - s + 128) by (apply Z.mod_small; lia). rewrite E2.
  assert (E3 : (c - 125 - s + 128 - 1) mod 4294967296 = c - 125 - s + 128 - 1) by (apply Z.mod_small; lia). rewrite E3.
  set (x := c - 125 - s) in *.
  assert (Hd : x <= (x + 128 - 1) / 128 * 128 < x + 128 /\ ((x + 128 - 1) / 128 * 128) mod 128 = 0) by lia.
  set (d := (x + 128 - 1) / 128 * 128) in *. clearbody d.
  assert (Ed : d mod 4294967296 = d) by (apply Z.mod_small; lia). rewrite Ed.
  assert (Ef : (s + d) mod 4294967296 = s + d) by (apply Z.mod_small; lia).
  lia.
Qed.
