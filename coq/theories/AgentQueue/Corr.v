(* Correspondence cases for C08: one case = one whole history of a real agent.Shard (operations with what the
   implementation did/returned after each of them), or one run of the real Agent.Map + OriginalMarshalAppend. *)
From Coq Require Import ZArith List Bool.
From SH Require Import Common.Wrap Common.Corr Gen.AgentQueueConsts AgentQueue.Model.
Import ListNotations.
Open Scope Z_scope.

(* times are printed relative to the history's base second to keep the terms short *)
Inductive tsv := R (off : Z) | A (abs : Z).
Definition tabs (base : Z) (t : tsv) : Z := match t with R o => base + o | A a => a end.

(* operation + observation *)
Inductive cop :=
| Ap (id : Z) (ts : tsv) (mi : minfo) (hash : Z) (dropb : tsv) (ws : bool) (o : option (Z * tsv)) (* Some (ring index, key.Timestamp after) | None = not stored *)
| Fl (now : tsv) (ms : Z) (g : Z) (t : tsv) (c s : tsv) (l : Z) (* returned gap, sendTime; CurrentTime, SendTime, len(chan) after *)
| Dr (b : option (tsv * list (Z * tsv)))                      (* bucket received: Time, rows (id, key ts) *)
| St
| Sp (se : bool) (ret : Z) (s : tsv)
| Fa (bs : list (tsv * list (Z * tsv))).                       (* Agent.FlushAllData: every bucket the preprocessor then receives *)

Inductive case :=
| CHist (base hw hwslow stres : Z) (ops : list cop)
| CMap (metric : Z) (tags : list (Z * Z * list Z)) (bytes : list Z)
       (scratch : list Z) (hashed : list Z). (* bytes = OriginalMarshalAppend(nil); hashed = what OriginalHash(scratch) hashed *)

Definition pair_eqb (a b : Z * Z) : bool := (fst a =? fst b) && (snd a =? snd b).
Definition count_p (x : Z * Z) (l : list (Z * Z)) : nat := length (filter (pair_eqb x) l).
Definition ms_eqb (a b : list (Z * Z)) : bool :=
  Nat.eqb (length a) (length b) && forallb (fun x => Nat.eqb (count_p x a) (count_p x b)) a.

Definition rows (l : list item) : list (Z * Z) := map (fun it => (i_id it, i_ts it)) l.
Definition chan_len (st : state) : Z := match chan st with Some _ => 1 | None => 0 end.

Definition bucket_eqb (base : Z) (x : bucket) (b : tsv * list (Z * tsv)) : bool :=
  (b_time x =? tabs base (fst b)) && ms_eqb (rows (b_items x)) (map (fun p => (fst p, tabs base (snd p))) (snd b)).
Fixpoint buckets_eqb (base : Z) (xs : list bucket) (bs : list (tsv * list (Z * tsv))) : bool :=
  match xs, bs with
  | [], [] => true
  | x :: xs', b :: bs' => bucket_eqb base x b && buckets_eqb base xs' bs'
  | _, _ => false
  end.

Definition cstep (base : Z) (st : state) (c : cop) : state * bool :=
  match c with
  | Ap id ts mi hash dropb ws o =>
      let '(s, r) := apply st id (tabs base ts) mi hash (tabs base dropb) ws in
      (s, match r, o with
          | ADropped _, None => true
          | AAccepted it _, Some (idx, k) => (i_slot it mod queue_len =? idx) && (i_ts it =? tabs base k)
          | _, _ => false
          end)
  | Fl now ms g t c_ s_ l =>
      let '(s, g', t') := flush_buckets (tabs base now) ms st in
      (s, (g' =? g) && (t' =? tabs base t) && (cur s =? tabs base c_) && (sendt s =? tabs base s_) && (chan_len s =? l))
  | Dr b =>
      let '(s, b') := drain st in
      (s, match b', b with
          | None, None => true
          | Some x, Some b0 => bucket_eqb base x b0
          | _, _ => false
          end)
  | St => (set_stop st, true)
  | Sp se ret s_ =>
      let '(s, r) := single_step se st in
      (s, (r =? ret) && (sendt s =? tabs base s_))
  | Fa bs =>
      let s := flush_all st in
      (s, buckets_eqb base (skipn (length (out st)) (out s)) bs)
  end.

Fixpoint crun (base : Z) (st : state) (cs : list cop) : bool :=
  match cs with
  | [] => true
  | c :: cs' => let '(s, b) := cstep base st c in if b then crun base s cs' else false
  end.

Fixpoint list_eqb (a b : list Z) : bool :=
  match a, b with
  | [], [] => true
  | x :: a', y :: b' => (x =? y) && list_eqb a' b'
  | _, _ => false
  end.

Definition mk_tag (p : Z * Z * list Z) : tag :=
  let '(i, k, v) := p in
  mkTag i (if k =? 0 then KUnknown else if k =? 1 then KPlain else if k =? 2 then KRaw true else KRaw false) v.

Definition ok (c : case) : bool :=
  match c with
  | CHist base hw_ hwslow_ stres_ ops => crun base (init_state base hw_ hwslow_ stres_) ops
  | CMap metric tags bytes scratch hashed =>
      let otv := h_otv (map_all_tags (fun _ => None) (fun _ => 0) (map mk_tag tags)) in
      list_eqb (original_marshal_append [] metric otv) bytes && list_eqb (original_hash_bytes scratch metric otv) hashed
  end.

Definition mism := mismatches ok.
