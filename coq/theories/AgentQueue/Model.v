(* C08 — executable model of the agent shard's "super queue"
   (internal/agent/agent_shard.go: resolutionShardFromHashLocked, gapInReceivingQueueLocked,
    shouldDiscardIncomingData, Apply*/Add*; agent_shard_send.go: flushBuckets, FlushAllDataSingleStep;
    agent.go: FlushAllData; data_model/mapped_metric_header.go: OriginalMarshalAppend;
    agent_mapping.go: mapAllTags as far as it fills OriginalTagValues).
   Definitions only. Go's uint32/uint64 arithmetic is written with its wrap (Common/Wrap.v).
   Constants come from Gen/AgentQueueConsts.v, regenerated from the source on every run. *)
From Coq Require Import ZArith List Bool.
From SH Require Import Common.Wrap Gen.AgentQueueConsts.
Import ListNotations.
Open Scope Z_scope.

(* ---------- rows, buckets, state ---------- *)

(* One row of a bucket: the event id (rides in a tag in the harness) and key.Timestamp as stored.
   The other fields are ghost (never read by the transition functions): i_cts the event's timestamp after
   the zero/future clamp and before rounding, i_res the resolution used, i_slot the slot second computed by
   resolutionShardFromHashLocked, i_jmp the total jump-ahead distance of SendTime at the time of insertion. *)
Record item := mkItem { i_id : Z; i_ts : Z; i_cts : Z; i_res : Z; i_slot : Z; i_jmp : Z }.

(* a bucket handed to BucketsToPreprocess: (b.Time, ghost: jumped at flush time, rows) *)
Definition bucket := (Z * Z * list item)%type.
Definition b_time (b : bucket) : Z := fst (fst b).
Definition b_jmp (b : bucket) : Z := snd (fst b).
Definition b_items (b : bucket) : list item := snd b.

Record state := mkS {
  cur : Z;                    (* Shard.CurrentTime *)
  sendt : Z;                    (* Shard.SendTime *)
  ring : Z -> list item;      (* Shard.SuperQueue, index 0..queue_len-1 *)
  stop : bool;                (* stopReceivingIncomingData *)
  chan : option bucket;       (* BucketsToPreprocess, capacity 1 *)
  out : list bucket;          (* what the preprocessor has received, in order *)
  jumped : Z;                 (* ghost: sum of all jump-ahead distances *)
  hw : Z; hwslow : Z;         (* hardware(Slow)MetricResolutionResolved *)
  stres : Z;                  (* EffectiveResolution of the ingestion-status builtin metric *)
  acc : list item             (* ghost: every row ever stored by apply_core, newest first *)
}.

Definition add_row (st : state) (i : Z) (it : item) : state :=
  mkS (cur st) (sendt st) (fun j => if j =? i then it :: ring st i else ring st j) (stop st) (chan st) (out st) (jumped st)
      (hw st) (hwslow st) (stres st) (it :: acc st).
Definition set_ring (st : state) (r : Z -> list item) : state :=
  mkS (cur st) (sendt st) r (stop st) (chan st) (out st) (jumped st) (hw st) (hwslow st) (stres st) (acc st).
Definition set_cur (st : state) (c : Z) : state :=
  mkS c (sendt st) (ring st) (stop st) (chan st) (out st) (jumped st) (hw st) (hwslow st) (stres st) (acc st).
Definition set_snd (st : state) (s j : Z) : state :=
  mkS (cur st) s (ring st) (stop st) (chan st) (out st) j (hw st) (hwslow st) (stres st) (acc st).
Definition set_stop (st : state) : state :=
  mkS (cur st) (sendt st) (ring st) true (chan st) (out st) (jumped st) (hw st) (hwslow st) (stres st) (acc st).
Definition set_chan (st : state) (c : option bucket) (o : list bucket) : state :=
  mkS (cur st) (sendt st) (ring st) (stop st) c o (jumped st) (hw st) (hwslow st) (stres st) (acc st).

Definition upd (r : Z -> list item) (i : Z) (l : list item) : Z -> list item :=
  fun j => if j =? i then l else r j.

(* NewAgent / makeAgent: CurrentTime = now, SendTime = now - 2, all buckets empty *)
Definition init_state (now hw_ hwslow_ stres_ : Z) : state :=
  mkS (u32 now) (u32 (u32 now - 2)) (fun _ => []) false None [] 0 hw_ hwslow_ stres_ [].

(* ---------- resolution of a metric ---------- *)

Inductive minfo := MNil | MI (metric_id eff_res : Z) (slow : bool).

(* head of resolutionShardFromHashLocked; format.HardwareMetric(id) is id <= -1000 *)
Definition resolve_resolution (hw_ hwslow_ : Z) (mi : minfo) : Z :=
  match mi with
  | MNil => 1
  | MI mid eff slow =>
      if mid <=? -1000 then (if slow then u32 hwslow_ else u32 hw_) else u32 eff
  end.

(* ---------- slot choice: resolutionShardFromHashLocked ---------- *)

(* trunc([0..1) * resolution) in fixed point 32.32 *)
Definition resolution_shard_num (hash res : Z) : Z :=
  u32 (u64 ((hash mod two32) * res) / two32).

(* the deterministic part of the slot of a low-resolution row *)
Definition lowres_slot (kts res hash : Z) : Z := u32 (u32 (kts + res) + resolution_shard_num hash res).

(* key.Timestamp after `if 0 then CurrentTime` and the future clamp *)
Definition clamp_ts (cur_ ts : Z) : Z * bool :=
  let ts0 := if ts =? 0 then cur_ else ts in
  let lim := u32 (cur_ + future_slots) in
  if lim <? ts0 then (lim, true) else (ts0, false).

(* returns (slot second, key.Timestamp as rewritten, clampedFuture) *)
Definition place (cur_ snd_ ts res hash : Z) : Z * Z * bool :=
  let '(ts1, clamped) := clamp_ts cur_ ts in
  if res =? 1 then
    (if ts1 <? snd_ then snd_ else ts1, ts1, clamped)
  else
    let kts := u32 ((ts1 / res) * res) in
    let slot := lowres_slot kts res hash in
    let slot' :=
      if slot <? snd_
      then u32 (slot + u32 ((u32 (u32 (u32 (snd_ - slot) + res) - 1) / res) * res))
      else slot in
    (slot', kts, clamped).

(* ---------- accepting an event ---------- *)

(* gapInReceivingQueueLocked (int64 arithmetic, no wrap) *)
Definition gap (st : state) : Z := cur st - (sendt st + gap_slack).
Definition should_discard (st : state) : bool := stop st || (0 <? gap st).

Inductive drop_reason := DStop | DGap | DBefore.
Inductive apply_res := ADropped (why : drop_reason) | AAccepted (it : item) (clamped : bool).

(* body shared by ApplyUnique/ApplyValues/ApplyCounter/AddCounterHost/AddValueCounterHost/MergeItemValue/
   AddCounterHostStringBytesSrcIngestionStatus under the shard lock *)
Definition apply_core (st : state) (id ts res hash dropb : Z) : state * apply_res :=
  if stop st then (st, ADropped DStop) else
  if 0 <? gap st then (st, ADropped DGap) else
  let '(slot, kts, cl) := place (cur st) (sendt st) ts res hash in
  if kts <? dropb then (st, ADropped DBefore) else
  let it := mkItem id kts (fst (clamp_ts (cur st) ts)) res slot (jumped st) in
  (add_row st (slot mod queue_len) it, AAccepted it cl).

(* id of the "timestamp clamped to future" ingestion-status row the Apply* functions add themselves *)
Definition status_id : Z := -1.

(* ws = the entry point reports clamping (ApplyUnique/ApplyValues/ApplyCounter do, the Add*/Merge* do not) *)
Definition apply (st : state) (id ts : Z) (mi : minfo) (hash dropb : Z) (ws : bool) : state * apply_res :=
  let res := resolve_resolution (hw st) (hwslow st) mi in
  let '(st1, r) := apply_core st id ts res hash dropb in
  match r with
  | AAccepted it true =>
      if ws then (fst (apply_core st1 status_id (i_ts it) (u32 (stres st)) 0 dropb), r) else (st1, r)
  | _ => (st1, r)
  end.

(* ---------- sending ---------- *)

Definition is_nil {A} (l : list A) : bool := match l with [] => true | _ => false end.

(* `s.BucketsToPreprocess <- b`: a blocked send completes after the preprocessor took the previous bucket *)
Definition push_bucket (st : state) (b : bucket) : state :=
  match chan st with
  | None => set_chan st (Some b) (out st)
  | Some b0 => set_chan st (Some b) (out st ++ [b0])
  end.

(* FlushAllDataSingleStep; returns the int it returns *)
Definition single_step (sendEmpty : bool) (st : state) : state * Z :=
  let t := sendt st in
  let i := t mod queue_len in
  let b := ring st i in
  let st1 := set_snd st (u32 (t + 1)) (jumped st) in
  if is_nil b && negb sendEmpty then (st1, 0)
  else (push_bucket (set_ring st1 (upd (ring st1) i [])) (t, jumped st, b), 1).

Fixpoint flush_loop (fuel : nat) (upto : Z) (st : state) : state :=
  match fuel with
  | O => st
  | S f =>
      if (upto <=? sendt st) || negb (is_nil (match chan st with Some b => [b] | None => [] end)) then st
      else if cur st <=? sendt st then st
      else flush_loop f upto (fst (single_step (gap st <=? 0) st))
  end.

(* the jump-ahead of flushBuckets *)
Definition jump_ahead (st : state) : state :=
  let lim := u32 (cur st - (queue_len - future_slots)) in
  if sendt st <? lim then
    let d := u32 ((u32 (u32 (u32 (lim - sendt st) + queue_len) - 1) / queue_len) * queue_len) in
    set_snd st (u32 (sendt st + d)) (jumped st + d)
  else st.

(* flushBuckets(now): now = now_sec seconds + ms milliseconds (0 <= ms < 1000). Returns (gap, sendTime). *)
Definition flush_buckets (now_sec ms : Z) (st : state) : state * Z * Z :=
  let now32 := u32 now_sec in
  let '(st1, g, t) :=
    if cur st <? now32 then
      let st' := set_cur st now32 in
      (st', gap st', if 0 <? gap st' then sendt st' else 0)
    else (st, 0, 0) in
  let st2 := jump_ahead st1 in
  let upto := u32 ((now_sec * 1000 + ms - agent_window_ms) / 1000) in
  (flush_loop (Z.to_nat (cur st2 - sendt st2)) upto st2, g, t).

(* the preprocessor receives one bucket *)
Definition drain (st : state) : state * option bucket :=
  match chan st with
  | Some b => (set_chan st None (out st ++ [b]), Some b)
  | None => (st, None)
  end.

(* ---------- histories ---------- *)

Inductive op :=
| OApply (id ts : Z) (mi : minfo) (hash dropb : Z) (ws : bool)
| OFlush (now_sec ms : Z)
| ODrain
| OStop
| OStep (sendEmpty : bool).

Inductive obs :=
| BApply (r : apply_res)
| BFlush (g t : Z)
| BDrain (b : option bucket)
| BStop
| BStep (ret : Z).

Definition step (st : state) (o : op) : state * obs :=
  match o with
  | OApply id ts mi hash dropb ws => let '(s, r) := apply st id ts mi hash dropb ws in (s, BApply r)
  | OFlush n ms => let '(s, g, t) := flush_buckets n ms st in (s, BFlush g t)
  | ODrain => let '(s, b) := drain st in (s, BDrain b)
  | OStop => (set_stop st, BStop)
  | OStep se => let '(s, r) := single_step se st in (s, BStep r)
  end.

Fixpoint run (st : state) (ops : list op) : state * list obs :=
  match ops with
  | [] => (st, [])
  | o :: os => let '(s1, b) := step st o in let '(s2, bs) := run s1 os in (s2, b :: bs)
  end.

(* Agent.FlushAllData for one shard: flush_all_steps (generated from the real loop; must be queue_len for the ring to
   be emptied — AgentQueue/ProofsHist.v flush_all_steps_ok) single steps with sendEmpty=false, preprocessor running *)
Fixpoint flush_all_n (n : nat) (st : state) : state :=
  match n with
  | O => st
  | S k => flush_all_n k (fst (single_step false st))
  end.
Definition flush_all (st : state) : state := fst (drain (flush_all_n (Z.to_nat flush_all_steps) st)).

(* ---------- OriginalTagValues / OriginalMarshalAppend ---------- *)

Definition max_tags : Z := 48.          (* format.MaxTags *)
Definition host_tag_index : Z := -2.    (* format.HostTagIndex *)

(* what mapAllTags does with one tag of the event, after MapValidateTag resolved its name *)
Inductive tagkind :=
| KUnknown                      (* tagMeta == nil: not a tag of this metric *)
| KPlain                        (* mapped through the cache, or kept as string *)
| KRaw (okv : bool)             (* raw / raw64 value; okv = it parses *)
.
Record tag := mkTag { t_index : Z; t_kind : tagkind; t_value : list Z }.

(* h.Key.Tags / STags per index: either a mapped int or the string itself *)
Inductive tagval := VInt (v : Z) | VStr (s : list Z).

Record header := mkH { h_key : Z -> option tagval; h_otv : Z -> list Z }.
Definition empty_header : header := mkH (fun _ => None) (fun _ => []).

Definition map_tag (cache : list Z -> option Z) (rawval : list Z -> Z) (h : header) (t : tag) : header :=
  match t_kind t with
  | KUnknown => h
  | KRaw false => if is_nil (t_value t)
                  then mkH (fun j => if j =? t_index t then Some (VInt 0) else h_key h j)
                           (fun j => if (j =? t_index t) && negb (t_index t =? host_tag_index) then t_value t else h_otv h j)
                  else h                                   (* `continue`: neither key nor OriginalTagValues *)
  | KRaw true =>
      mkH (fun j => if j =? t_index t then Some (VInt (if is_nil (t_value t) then 0 else rawval (t_value t))) else h_key h j)
          (fun j => if (j =? t_index t) && negb (t_index t =? host_tag_index) then t_value t else h_otv h j)
  | KPlain =>
      let v := if is_nil (t_value t) then VInt 0 else
               match cache (t_value t) with Some id => VInt id | None => VStr (t_value t) end in
      mkH (fun j => if j =? t_index t then Some v else h_key h j)
          (fun j => if (j =? t_index t) && negb (t_index t =? host_tag_index) then t_value t else h_otv h j)
  end.

Definition map_all_tags cache rawval (ts : list tag) : header := fold_left (map_tag cache rawval) ts empty_header.

(* OriginalMarshalAppend: [metric_id LE32][tagsCount][tag0][0][tag1][0]… over tags 0..max_tags-2, empty suffix cut *)
Fixpoint tags_count (otv : Z -> list Z) (n : nat) : nat :=
  match n with
  | O => O
  | S k => if is_nil (otv (Z.of_nat k)) then tags_count otv k else n
  end.

Definition le32 (x : Z) : list Z :=
  let y := u32 x in [y mod 256; (y / 256) mod 256; (y / 65536) mod 256; (y / 16777216) mod 256].

Definition original_marshal (metric_id : Z) (otv : Z -> list Z) : list Z :=
  let n := tags_count otv (Z.to_nat (max_tags - 1)) in
  le32 metric_id ++ [Z.of_nat n] ++ flat_map (fun k => otv (Z.of_nat k) ++ [0]) (seq 0 n).

(* OriginalHash(scratch): `scratch = h.OriginalMarshalAppend(scratch[:0])`, then xxh3 over the result. The scratch is
   the per-worker buffer reused across events (it holds the bytes of whatever used it last, e.g. the mapped key
   marshalled by tags_hash sharding). original_marshal_append is OriginalMarshalAppend(buffer). *)
Definition original_marshal_append (buffer : list Z) (metric_id : Z) (otv : Z -> list Z) : list Z :=
  buffer ++ original_marshal metric_id otv.
Definition original_hash_bytes (scratch : list Z) (metric_id : Z) (otv : Z -> list Z) : list Z :=
  original_marshal_append (firstn 0 scratch) metric_id otv.
