(* C08 — the invariant over whole histories (any interleaving of events, flush iterations under any clock
   inside the no-wrap domain, preprocessor receives, stop, shutdown steps) and the final FlushAllData. *)
From Coq Require Import ZArith List Bool Lia Permutation Sorted.
From SH Require Import Common.Wrap Gen.AgentQueueConsts AgentQueue.Model AgentQueue.ProofsPlace AgentQueue.ProofsInv.
Import ListNotations.
Open Scope Z_scope.
Ltac Zify.zify_post_hook ::= Z.to_euclidean_division_equations.

(* what no operation changes *)
Definition same_cfg (a b : state) : Prop := hw b = hw a /\ hwslow b = hwslow a /\ stres b = stres a.

Lemma set_cur_inv st c : Inv st -> clock_ok c -> Inv (set_cur st c).
Proof. intros [Hc Hs Hr Ho Ht Hp] Hc'. constructor; auto. Qed.

Lemma jump_inv st :
  Inv st -> let st' := jump_ahead st in
  Inv st' /\ cur st' = cur st /\ acc st' = acc st /\ stop st' = stop st /\ same_cfg st st' /\
  sendt st <= sendt st' /\ (sendt st' - sendt st) mod queue_len = 0 /\ jumped st' - jumped st = sendt st' - sendt st.
Proof.
  intros HI. pose proof HI as [Hc Hs Hring Hout Htimes Hperm]. unfold jump_ahead.
  destruct (jump_spec (cur st) (sendt st) Hc ltac:(unfold queue_len, two32 in *; lia)) as (El & Hj).
  destruct (sendt st <? u32 (cur st - (queue_len - future_slots))) eqn:E; cbv zeta.
  2:{ unfold same_cfg. split_ands; auto; try lia. rewrite Z.sub_diag. reflexivity. }
  apply Z.ltb_lt in E. specialize (Hj E). cbv zeta in Hj.
  set (d := u32 (u32 (u32 (u32 (u32 (cur st - (queue_len - future_slots)) - sendt st) + queue_len) - 1) / queue_len * queue_len)) in *.
  destruct Hj as (Hd0 & Hdm & Hdw & Eu). rewrite Eu. clearbody d.
  unfold same_cfg. split; [|cbn; split_ands; auto; try lia; replace (sendt st + d - sendt st) with d by lia; exact Hdm].
  unfold clock_ok in Hc. constructor; cbn; auto.
  - unfold queue_len, future_slots, two32 in *. lia.
  - intros i it Hin. destruct (Hring i it Hin) as (Hr & Hi & Hw & Hm & Hjm). unfold vslot in *. cbn.
    split_ands; auto; try lia. unfold queue_len in *. lia.
  - intros b it Hb Hit. destruct (Hout b it Hb Hit) as (Hr & Ht & Hm & Hj1 & Hj2). split_ands; auto. lia.
  - split; [apply Htimes|]. eapply Forall_impl; [|apply Htimes]. cbn. intros; lia.
Qed.

Lemma flush_loop_inv fuel upto st :
  Inv st -> let st' := flush_loop fuel upto st in
  Inv st' /\ cur st' = cur st /\ acc st' = acc st /\ stop st' = stop st /\ same_cfg st st' /\ jumped st' = jumped st.
Proof.
  revert st. induction fuel as [|f IH]; intros st HI; cbn.
  - unfold same_cfg; split_ands; auto.
  - destruct ((upto <=? sendt st) || negb (is_nil (match chan st with Some b => [b] | None => [] end))); [unfold same_cfg; split_ands; auto|].
    destruct (cur st <=? sendt st) eqn:E; [unfold same_cfg; split_ands; auto | apply Z.leb_gt in E].
    assert (Hb : sendt st + 1 + queue_len < two32) by (destruct (inv_cur _ HI); unfold queue_len, two32 in *; lia).
    destruct (single_step_inv (gap st <=? 0) st HI Hb) as (HI1 & Es & Ec & Ej & Ea & Est & Ehw & Ehs & Esr & _).
    destruct (IH _ HI1) as (HI2 & Ec2 & Ea2 & Est2 & (Ehw2 & Ehs2 & Esr2) & Ej2).
    unfold same_cfg. split_ands; auto; congruence.
Qed.

Lemma flush_buckets_inv now ms st :
  Inv st -> clock_ok now -> let st' := fst (fst (flush_buckets now ms st)) in
  Inv st' /\ acc st' = acc st /\ stop st' = stop st /\ same_cfg st st'.
Proof.
  intros HI Hn. unfold flush_buckets.
  assert (En : u32 now = now) by (apply u32_id; unfold clock_ok, is_u32, queue_len, two32 in *; lia). rewrite En.
  set (st1 := if cur st <? now then set_cur st now else st).
  assert (H1 : Inv st1 /\ acc st1 = acc st /\ stop st1 = stop st /\ same_cfg st st1).
  { subst st1. destruct (cur st <? now); unfold same_cfg; split_ands; auto. apply set_cur_inv; assumption. }
  destruct H1 as (HI1 & Ea1 & Es1 & (Eh1 & Ehs1 & Esr1)).
  assert (Eq : (if cur st <? now then (set_cur st now, gap (set_cur st now), if 0 <? gap (set_cur st now) then sendt (set_cur st now) else 0) else (st, 0, 0))
             = (st1, (if cur st <? now then gap (set_cur st now) else 0), (if cur st <? now then (if 0 <? gap (set_cur st now) then sendt (set_cur st now) else 0) else 0)))
    by (subst st1; destruct (cur st <? now); reflexivity).
  rewrite Eq. cbn [fst].
  destruct (jump_inv st1 HI1) as (HI2 & Ec2 & Ea2 & Es2 & (Eh2 & Ehs2 & Esr2) & _).
  destruct (flush_loop_inv (Z.to_nat (cur (jump_ahead st1) - sendt (jump_ahead st1))) (u32 ((now * 1000 + ms - agent_window_ms) / 1000)) _ HI2)
    as (HI3 & Ec3 & Ea3 & Es3 & (Eh3 & Ehs3 & Esr3) & _).
  unfold same_cfg. split_ands; auto; congruence.
Qed.

Lemma drain_inv st : Inv st -> let st' := fst (drain st) in
  Inv st' /\ acc st' = acc st /\ stop st' = stop st /\ same_cfg st st' /\ sendt st' = sendt st /\ ring st' = ring st /\ jumped st' = jumped st /\
  chan st' = None.
Proof.
  intros [Hc Hs Hring Hout Htimes Hperm]. cbv zeta.
  assert (E : cur (fst (drain st)) = cur st /\ sendt (fst (drain st)) = sendt st /\ ring (fst (drain st)) = ring st /\
              jumped (fst (drain st)) = jumped st /\ acc (fst (drain st)) = acc st /\ stop (fst (drain st)) = stop st /\
              same_cfg st (fst (drain st)) /\ chan (fst (drain st)) = None)
    by (unfold drain, same_cfg; destruct (chan st) eqn:Ech; cbn; split_ands; auto).
  destruct E as (Ec & Es & Er & Ej & Ea & Est & Ecfg & Ech).
  split_ands; auto.
  constructor.
  - rewrite Ec; exact Hc.
  - rewrite Es; exact Hs.
  - intros i it. rewrite Er, Es. unfold vslot. rewrite Ej. apply Hring.
  - rewrite delivered_drain, Ej. exact Hout.
  - rewrite delivered_drain, Es. exact Htimes.
  - unfold all_items, ring_items. rewrite delivered_drain, Er, Ea. exact Hperm.
Qed.

Lemma set_stop_inv st : Inv st -> Inv (set_stop st).
Proof. intros [Hc Hs Hr Ho Ht Hp]. constructor; auto. Qed.

(* ---------- histories ---------- *)

(* the domain of the theorems: allowed resolutions, 32-bit timestamps, clocks inside [queue_len, 2^32 - 2*queue_len)
   (no uint32 operation of flushBuckets wraps), SendTime not driven to 2^32 by shutdown steps *)
Definition op_ok (st : state) (o : op) : Prop :=
  match o with
  | OApply id ts mi hash dropb ws => res_ok (resolve_resolution (hw st) (hwslow st) mi) /\ 0 <= ts < two32
  | OFlush now ms => clock_ok now
  | OStep _ => sendt st + 1 + queue_len < two32
  | ODrain | OStop => True
  end.

Fixpoint ops_ok (st : state) (ops : list op) : Prop :=
  match ops with
  | [] => True
  | o :: os => op_ok st o /\ ops_ok (fst (step st o)) os
  end.

Definition Inv2 (st : state) : Prop := Inv st /\ res_ok (u32 (stres st)).

Lemma step_inv st o : Inv2 st -> op_ok st o -> Inv2 (fst (step st o)).
Proof.
  intros (HI & Hsr) Hok. destruct o as [id ts mi hash dropb ws|now ms| | |se]; cbn in *.
  - destruct Hok as (Hr & Ht). destruct (apply st id ts mi hash dropb ws) as [s r] eqn:E. cbn.
    destruct (apply_inv _ _ _ _ _ _ _ _ _ HI Hr Hsr Ht E) as (HI' & _ & _ & _ & _ & _ & Esr & _). split; [exact HI'|rewrite Esr; exact Hsr].
  - destruct (flush_buckets_inv now ms st HI Hok) as (HI' & _ & _ & (_ & _ & Esr)).
    destruct (flush_buckets now ms st) as [[s g] t]. cbn in *. split; [exact HI'|rewrite Esr; exact Hsr].
  - destruct (drain_inv st HI) as (HI' & _ & _ & (_ & _ & Esr) & _).
    destruct (drain st) as [s b]. cbn in *. split; [exact HI'|rewrite Esr; exact Hsr].
  - split; [apply set_stop_inv; exact HI|exact Hsr].
  - destruct (single_step_inv se st HI Hok) as (HI' & _ & _ & _ & _ & _ & _ & _ & Esr & _).
    destruct (single_step se st) as [s r]. cbn in *. split; [exact HI'|rewrite Esr; exact Hsr].
Qed.

Lemma run_fst_cons st o os : fst (run st (o :: os)) = fst (run (fst (step st o)) os).
Proof. cbn. destruct (step st o) as [s1 b]. cbn. destruct (run s1 os). reflexivity. Qed.

Lemma run_inv ops : forall st, Inv2 st -> ops_ok st ops -> Inv2 (fst (run st ops)).
Proof.
  induction ops as [|o os IH]; intros st HI Hok; [exact HI|].
  rewrite run_fst_cons. destruct Hok as (Ho & Hos). apply IH; [apply step_inv; assumption | exact Hos].
Qed.

Definition hist (now hw_ hwslow_ stres_ : Z) (ops : list op) : state :=
  fst (run (init_state now hw_ hwslow_ stres_) ops).

Lemma hist_inv now hw_ hwslow_ stres_ ops :
  clock_ok now -> res_ok (u32 stres_) -> ops_ok (init_state now hw_ hwslow_ stres_) ops ->
  Inv2 (hist now hw_ hwslow_ stres_ ops).
Proof. intros Hc Hr Hok. apply run_inv; [split; [apply inv_init; exact Hc | exact Hr] | exact Hok]. Qed.

(* ---------- shutdown: Agent.FlushAllData ---------- *)

Lemma flush_all_n_inv n : forall st B,
  Inv st -> sendt st + Z.of_nat n + queue_len < two32 ->
  (forall i it, In it (ring st i) -> vslot st it < B) ->
  let st' := flush_all_n n st in
  Inv st' /\ sendt st' = sendt st + Z.of_nat n /\ acc st' = acc st /\ jumped st' = jumped st /\
  (forall i it, In it (ring st' i) -> vslot st' it < B).
Proof.
  induction n as [|k IH]; intros st B HI Hb HB; cbn [flush_all_n].
  - split_ands; auto. lia.
  - destruct (single_step_inv false st HI ltac:(lia)) as (HI1 & Es & Ec & Ej & Ea & _ & _ & _ & _ & Hsub).
    destruct (IH (fst (single_step false st)) B HI1 ltac:(lia)) as (HI2 & Es2 & Ea2 & Ej2 & HB2).
    { intros i it Hin. unfold vslot. rewrite Ej. apply (HB i). apply Hsub. exact Hin. }
    split_ands; auto; try congruence. lia.
Qed.

Lemma flat_map_all_nil (r : Z -> list item) l : (forall i, In i l -> r i = []) -> flat_map r l = [].
Proof. induction l as [|a l IH]; intros H; [reflexivity|]. cbn. rewrite (H a (or_introl eq_refl)), IH; auto. intros; apply H; right; assumption. Qed.

Lemma flush_all_n_empty n st :
  Inv st -> Z.of_nat n = queue_len -> sendt st + 2 * queue_len < two32 ->
  let s1 := flush_all_n n st in Inv s1 /\ acc s1 = acc st /\ (forall i, ring s1 i = []).
Proof.
  intros HI Hn Hb.
  destruct (flush_all_n_inv n st (sendt st + queue_len) HI ltac:(lia))
    as (HI1 & Es & Ea & Ej & HB).
  { intros i it Hin. apply (inv_ring _ HI i it Hin). }
  cbv zeta. set (s1 := flush_all_n n st) in *. clearbody s1.
  split_ands; auto.
  intros i. destruct (ring s1 i) as [|it l] eqn:E; [reflexivity|exfalso].
  assert (Hin : In it (ring s1 i)) by (rewrite E; left; reflexivity).
  specialize (HB i it Hin). destruct (inv_ring _ HI1 i it Hin) as (_ & _ & Hw & _). lia.
Qed.
(* side condition over the generated constant: the shutdown loop of Agent.FlushAllData walks the whole ring *)
Lemma flush_all_steps_ok : flush_all_steps = queue_len.
Proof. reflexivity. Qed.
Lemma to_nat_ql : Z.of_nat (Z.to_nat flush_all_steps) = queue_len.
Proof. reflexivity. Qed.
Theorem flush_all_spec st :
  Inv st -> sendt st + 2 * queue_len < two32 ->
  let st' := flush_all st in
  Inv st' /\ chan st' = None /\ (forall i, ring st' i = []) /\ acc st' = acc st /\
  Permutation (flat_map b_items (out st')) (acc st).
Proof.
  intros HI Hb.
  destruct (flush_all_n_empty (Z.to_nat flush_all_steps) st HI to_nat_ql Hb) as (HI1 & Ea & Hempty).
  unfold flush_all. 
  generalize dependent (flush_all_n (Z.to_nat flush_all_steps) st). intros s1 HI1 Ea Hempty. cbv zeta.
  destruct (drain_inv s1 HI1) as (HI2 & Ea2 & _ & _ & _ & Er2 & _ & Ech).
  split_ands; auto.
  - intros i. rewrite Er2. apply Hempty.
  - congruence.
  - pose proof (inv_perm _ HI2) as Hp. unfold all_items, ring_items in Hp. rewrite Er2 in Hp.
    rewrite (flat_map_all_nil (ring s1) idxs (fun i _ => Hempty i)) in Hp. cbn [app] in Hp.
    unfold delivered, chan_list in Hp. rewrite Ech, app_nil_r in Hp. rewrite Ea2, Ea in Hp. exact Hp.
Qed.

(* ---------- the property clauses over all histories ---------- *)

Section Clauses.
  Variables (now hw_ hwslow_ stres_ : Z) (ops : list op).
  Hypothesis Hnow : clock_ok now.
  Hypothesis Hstres : res_ok (u32 stres_).
  Hypothesis Hops : ops_ok (init_state now hw_ hwslow_ stres_) ops.
  Let st := hist now hw_ hwslow_ stres_ ops.

  (* at every moment every stored row is in exactly one place: a ring slot or a bucket already sent *)
  Lemma stored_rows_conserved : Permutation (all_items st) (acc st).
  Proof. apply inv_perm, (hist_inv _ _ _ _ _ Hnow Hstres Hops). Qed.

  Lemma accepted_flushed_exactly_once :
    sendt st + 2 * queue_len < two32 ->
    let st' := flush_all st in
    chan st' = None /\ (forall i, ring st' i = []) /\ Permutation (flat_map b_items (out st')) (acc st).
  Proof.
    intros Hb. destruct (flush_all_spec st (proj1 (hist_inv _ _ _ _ _ Hnow Hstres Hops)) Hb) as (_ & H1 & H2 & _ & H3). auto.
  Qed.

  Lemma sent_rows_distinct :
    sendt st + 2 * queue_len < two32 -> NoDup (map i_id (acc st)) ->
    NoDup (map i_id (flat_map b_items (out (flush_all st)))).
  Proof.
    intros Hb Hnd. destruct (accepted_flushed_exactly_once Hb) as (_ & _ & Hp).
    eapply Permutation_NoDup; [apply Permutation_sym, Permutation_map, Hp | exact Hnd].
  Qed.

  Lemma never_before_clamped_timestamp b it :
    In b (delivered st) -> In it (b_items b) ->
    i_cts it <= b_time b /\ i_ts it <= b_time b /\ i_slot it <= b_time b /\
    (b_time b - i_slot it) mod queue_len = 0 /\ b_time b = i_slot it + (b_jmp b - i_jmp it).
  Proof.
    intros Hb Hit. destruct (inv_out _ (proj1 (hist_inv _ _ _ _ _ Hnow Hstres Hops)) b it Hb Hit) as ((_ & _ & Hk & Hcs & _) & Ht & Hm & Hj & _).
    split_ands; try lia. replace (b_time b - i_slot it) with (b_jmp b - i_jmp it) by lia. exact Hm.
  Qed.

  Lemma low_res_rounded b it :
    In b (delivered st) -> In it (b_items b) ->
    res_ok (i_res it) /\ i_ts it = (i_cts it / i_res it) * i_res it /\ i_ts it mod i_res it = 0 /\
    i_ts it <= i_cts it < i_ts it + i_res it.
  Proof.
    intros Hb Hit. destruct (inv_out _ (proj1 (hist_inv _ _ _ _ _ Hnow Hstres Hops)) b it Hb Hit) as ((Hr & Hk & Hkr & _) & _).
    split_ands; auto; try lia. rewrite Hk. apply Z.mod_mul. unfold res_ok in Hr. lia.
  Qed.

  Lemma bucket_times_increase : StronglySorted later (rev (delivered st)).
  Proof. apply (inv_times _ (proj1 (hist_inv _ _ _ _ _ Hnow Hstres Hops))). Qed.

  (* one more event arriving after the history *)
  Lemma drops_only_when_gap_or_stopped_or_secondary_early id ts res hash dropb st' r :
    res_ok res -> 0 <= ts < two32 -> apply_core st id ts res hash dropb = (st', r) ->
    match r with
    | ADropped DStop => stop st = true
    | ADropped DGap => 0 < gap st
    | ADropped DBefore => 0 < dropb /\ (clamp_pure (cur st) ts / res) * res < dropb
    | AAccepted it _ => stop st = false /\ gap st <= 0 /\ dropb <= i_ts it /\ acc st' = it :: acc st
    end.
  Proof.
    intros Hr Ht Ha. destruct (apply_core_inv _ _ _ _ _ _ _ _ (proj1 (hist_inv _ _ _ _ _ Hnow Hstres Hops)) Hr Ht Ha) as (HI' & Hres).
    destruct r as [[| |]|it cl].
    - apply Hres.
    - apply Hres.
    - destruct Hres as (_ & _ & _ & Hd). split; [|exact Hd].
      destruct (clamp_ts_spec (cur st) ts (inv_cur _ (proj1 (hist_inv _ _ _ _ _ Hnow Hstres Hops))) Ht) as (_ & _ & Hc).
      unfold res_ok, max_resolution in Hr. pose proof (round_down (clamp_pure (cur st) ts) res ltac:(lia) ltac:(lia)). unfold st in *. lia.
    - destruct Hres as (H1 & H2 & H3 & _ & _ & _ & _ & H4 & _). auto.
  Qed.

  Lemma primary_shard_accepts id ts res hash :
    res_ok res -> 0 <= ts < two32 -> stop st = false -> gap st <= 0 ->
    exists st' it cl, apply_core st id ts res hash 0 = (st', AAccepted it cl).
  Proof.
    intros Hr Ht Hs Hg. destruct (apply_core st id ts res hash 0) as [st' r] eqn:Ha.
    pose proof (drops_only_when_gap_or_stopped_or_secondary_early _ _ _ _ _ _ _ Hr Ht Ha) as H.
    destruct r as [[| |]|it cl]; [congruence | lia | lia | eauto].
  Qed.

  (* the slot of a row that is neither late nor clamped depends on (timestamp, resolution, hash) only *)
  Lemma placement_nominal id ts res hash dropb st' it :
    res_ok res -> 0 < ts < two32 -> apply_core st id ts res hash dropb = (st', AAccepted it false) ->
    sendt st <= nominal_slot ts res hash ->
    i_slot it = nominal_slot ts res hash /\ i_cts it = ts /\ i_jmp it = jumped st.
  Proof.
    unfold st in *. intros Hr Ht Ha Hnl. assert (Ht' : 0 <= ts < two32) by lia.
    destruct (apply_core_inv _ _ _ _ _ _ _ _ (proj1 (hist_inv _ _ _ _ _ Hnow Hstres Hops)) Hr Ht' Ha) as (_ & Hres).
    destruct Hres as (_ & _ & _ & _ & _ & _ & Hcts & _ & Hcl & Hj & _ & Hn & _).
    assert (E : clamp_pure (cur (hist now hw_ hwslow_ stres_ ops)) ts = ts).
    { unfold clamp_pure. destruct (ts =? 0) eqn:E0; [apply Z.eqb_eq in E0; lia|]. try rewrite E0 in Hcl.
      symmetry in Hcl. apply Z.ltb_ge in Hcl. apply Z.min_l. exact Hcl. }
    rewrite E in Hcts. rewrite Hcts in Hn. auto.
  Qed.
End Clauses.

(* two agents, whatever their histories: the same (timestamp, resolution, hash), late on neither and clamped
   on neither, gets the same slot second *)
Theorem same_slot_on_all_agents now1 hw1 hs1 sr1 ops1 now2 hw2 hs2 sr2 ops2 id1 id2 ts res hash d1 d2 s1' s2' it1 it2 :
  clock_ok now1 -> res_ok (u32 sr1) -> ops_ok (init_state now1 hw1 hs1 sr1) ops1 ->
  clock_ok now2 -> res_ok (u32 sr2) -> ops_ok (init_state now2 hw2 hs2 sr2) ops2 ->
  res_ok res -> 0 < ts < two32 ->
  apply_core (hist now1 hw1 hs1 sr1 ops1) id1 ts res hash d1 = (s1', AAccepted it1 false) ->
  apply_core (hist now2 hw2 hs2 sr2 ops2) id2 ts res hash d2 = (s2', AAccepted it2 false) ->
  sendt (hist now1 hw1 hs1 sr1 ops1) <= nominal_slot ts res hash ->
  sendt (hist now2 hw2 hs2 sr2 ops2) <= nominal_slot ts res hash ->
  i_slot it1 = i_slot it2 /\ i_ts it1 = i_ts it2.
Proof.
  intros Hn1 Hr1 Ho1 Hn2 Hr2 Ho2 Hr Ht Ha1 Ha2 Hl1 Hl2.
  destruct (placement_nominal _ _ _ _ _ Hn1 Hr1 Ho1 _ _ _ _ _ _ _ Hr Ht Ha1 Hl1) as (E1 & C1 & _).
  destruct (placement_nominal _ _ _ _ _ Hn2 Hr2 Ho2 _ _ _ _ _ _ _ Hr Ht Ha2 Hl2) as (E2 & C2 & _).
  split; [congruence|]. assert (Ht' : 0 <= ts < two32) by lia.
  destruct (apply_core_inv _ _ _ _ _ _ _ _ (proj1 (hist_inv _ _ _ _ _ Hn1 Hr1 Ho1)) Hr Ht' Ha1) as (_ & (_ & _ & _ & (_ & K1 & _) & _ & R1 & _)).
  destruct (apply_core_inv _ _ _ _ _ _ _ _ (proj1 (hist_inv _ _ _ _ _ Hn2 Hr2 Ho2)) Hr Ht' Ha2) as (_ & (_ & _ & _ & (_ & K2 & _) & _ & R2 & _)).
  rewrite K1, K2, C1, C2, R1, R2. reflexivity.
Qed.

(* ---------- outside the clock domain: the end of uint32 time (finding F-C08a) ---------- *)
(* An agent whose clock is 3 s before 2^32: CurrentTime+superQueueFutureSlots wraps to 0, an event stamped "now" is
   "clamped" to timestamp 0 and sent in bucket now-2 — earlier than its (properly clamped) timestamp. *)
Lemma u32_time_wrap_witness :
  exists now ts, 0 <= now < two32 /\ ~ clock_ok now /\
  let st := init_state now 5 15 1 in
  let st2 := flush_all (fst (apply_core st 1 ts 1 0 0)) in
  exists b it, In b (out st2) /\ In it (b_items b) /\ i_id it = 1 /\ i_ts it = 0 /\ b_time b < clamp_pure (cur st) ts.
Proof.
  exists 4294967293, 4294967293. split; [unfold two32; lia|]. split; [unfold clock_ok, queue_len, two32; lia|].
  cbv zeta.
  exists (4294967291, 0, [mkItem 1 0 0 1 4294967291 0]), (mkItem 1 0 0 1 4294967291 0).
  vm_compute. repeat split; auto; try discriminate.
Qed.
