(* Correspondence cases for C20: one case = one whole history on a chain of real JournalFast objects
   (node 0 = source, 1 = aggregator journal (compact or not) fed from 0, 2 and 3 = agent journals fed from 1),
   each with its own MetricsStorage, with what the implementation showed after every operation. *)
From Coq Require Import ZArith List Bool.
From SH Require Import Common.Corr Journal.Model.
Import ListNotations.
Open Scope Z_scope.

(* ---- digests (the same arithmetic is implemented in the Go harness) ---- *)
Definition DM : Z := 2147483647.
Definition mix (d x : Z) : Z := (d * 48271 + (if (0 <=? x) && (x <? DM) then x else x mod DM)) mod DM.
Definition b2z (b : bool) : Z := if b then 1 else 0.
Definition dname (n : name) : Z := mix (fold_left mix n 17) (Z.of_nat (length n)).
Definition devent (e : event) : Z :=
  let 'Dt b d c r s := e_data e in
  fold_left mix [e_typ e; e_id e; e_ver e; dname (e_name e); e_mask e; e_ns e; e_upd e; e_unused e; e_meta e; b2z b; b2z d; b2z c; r; s] 7.
Definition djournal (j : journal) : Z := fold_left (fun d e => mix d (devent e)) (j_entries j) 1.
Definition dsum (l : list Z) : Z := fold_left (fun a x => (a + x) mod DM) l 0.
Definition dstorage (s : storage) : Z :=
  dsum (map (fun p => let m := snd p in fold_left mix [fst p; m_id m; m_ver m; dname (m_name m); m_group m] 101) (by_id s) ++
        map (fun p => let m := snd p in fold_left mix [dname (fst p); m_id m; m_ver m; m_group m] 102) (by_name s) ++
        map (fun p => let g := snd p in fold_left mix [fst p; g_id g; g_ver g; dname (g_name g); b2z (g_disable g)] 103) (g_by_id s) ++
        map (fun p => let g := snd p in fold_left mix [dname (fst p); g_id g; g_ver g] 104) (g_by_name s) ++
        map (fun p => let n := snd p in fold_left mix [fst p; n_id n; n_ver n; dname (n_name n)] 105) (n_by_id s) ++
        map (fun p => let n := snd p in fold_left mix [dname (fst p); n_id n; n_ver n] 106) (n_by_name s) ++
        [fold_left mix (map g_id (g_ordered s)) 107]).

(* ---- cases ---- *)
(* what is read from the touched node after an operation *)
Inductive obs := Ob (cur loader known hash32 jdig sdig : Z).

Inductive op :=
(* source edit: node 0 applyUpdate([e]); hs = low 32 bits of the 128-bit hash of e, compact e, wire e, wire (compact e);
   szs = len(Name)+len(Data)+60 of e and of compact e (what the byte budget of a diff counts) *)
| OEdit (e : event) (hs : list Z) (szs : list Z) (amb : list (name * Z)) (gord : list Z) (o : obs)
(* node [to] asks its upstream for a diff from its loaderVersion with the item and byte limits, the answer is cut to
   [cut] events and applied *)
| ODeliver (to max_items max_bytes cut : Z) (amb : list (name * Z)) (gord : list Z) (o : obs)
(* node saves, the file is truncated, node is re-created from the file with a fresh MetricsStorage;
   hdr/chunks = what the reader got back; full = nothing was cut off *)
| OReload (node : Z) (full hdr : bool) (chunks : list nat) (amb : list (name * Z)) (gord : list Z) (o : obs).

Inductive fobs := FO (node : Z) (entries : list event)
  (mets : list (Z * Z * name * Z)) (byname : list (name * Z * Z * Z))
  (groups : list (Z * Z * name * bool)) (gbyname : list (name * Z))
  (nss : list (Z * Z * name)) (nbyname : list (name * Z)).

(* one long-poll client of HandleGetMetrics3: the version it asks from, the immediate answer (None = parked) and, for a
   parked one, what broadcastJournal sent it after the next update (None = still parked); answers as (type,id,version) *)
Inductive pollc := PC (from : Z) (imm del : option (list (Z * Z * Z))).

Inductive case :=
| CHist (compact : bool) (ops : list op) (finals : list fobs)
| CConsts (cs : list Z)
(* an aggregator journal receives batch1, the clients call HandleGetMetrics3, it receives batch2 (applyUpdate ->
   broadcastJournal), default limits *)
| CPoll (compact : bool) (batch1 batch2 : list event) (max_items max_bytes : Z) (clients : list pollc).

(* ---- hash table built from the edits ---- *)
Definition htab := list (event * (Z * Z)).   (* event without version -> (hash, size) *)
Definition hlookup (t : htab) (e : event) : Z :=
  match find (fun p => event_eqb_nover (fst p) e) t with Some p => fst (snd p) | None => 0 end.
Definition szlookup (t : htab) (e : event) : Z :=
  match find (fun p => event_eqb_nover (fst p) e) t with Some p => snd (snd p) | None => 0 end.
Definition forms (e : event) : list (option event) :=
  [Some e; compact_event e; Some (wire e); match compact_event e with Some c => Some (wire c) | None => None end].
Fixpoint zip_forms (fs : list (option event)) (hs szs : list Z) : htab :=
  match fs, hs, szs with
  | Some f :: fr, h :: hr, z :: zr => (f, (h, z)) :: zip_forms fr hr zr
  | None :: fr, _ :: hr, _ :: zr => zip_forms fr hr zr
  | _, _, _ => []
  end.
Definition sizes4 (szs : list Z) : list Z :=
  match szs with [a; b] => [a; b; a; b] | _ => [] end.
Fixpoint build_htab (ops : list op) : htab :=
  match ops with
  | OEdit e hs szs _ _ _ :: r => zip_forms (forms e) hs (sizes4 szs) ++ build_htab r
  | _ :: r => build_htab r
  | [] => []
  end.

(* ---- running a history ---- *)
Record node := Nd { nd_j : journal; nd_s : storage }.
Definition nodes := list node.
Definition getn (ns : nodes) (i : Z) : node := nth (Z.to_nat i) ns (Nd (empty_journal false) init_storage).
Fixpoint setn (ns : nodes) (i : nat) (n : node) : nodes :=
  match ns, i with
  | _ :: r, O => n :: r
  | h :: r, S i' => h :: setn r i' n
  | [], _ => []
  end.

Definition obs_ok (n : node) (o : obs) : bool :=
  let 'Ob cur loader known h jd sd := o in
  (j_cur (nd_j n) =? cur) && (j_loader (nd_j n) =? loader) && (j_known (nd_j n) =? known) &&
  (Z.land (j_hash (nd_j n)) 4294967295 =? h) && (djournal (nd_j n) =? jd) && (dstorage (nd_s n) =? sd).

Fixpoint takeZ {A} (n : Z) (l : list A) : list A :=
  match l with [] => [] | x :: r => if n <=? 0 then [] else x :: takeZ (n - 1) r end.
Definition no_sz (_ : event) : Z := 0.
Definition big : Z := 1000000000000.

Section Run.
  Variable fixm fixg : bool.
  Variable H : event -> Z.
  Variable SZ : event -> Z.

  (* the node an operation touches, its index, its state afterwards, and the observation to compare with *)
  Definition post (ns : nodes) (o : op) : option (nat * node * obs) :=
    match o with
    | OEdit e _ _ amb gord ob =>
        let n := getn ns 0 in
        match apply_update H (nd_j n) [e] (e_ver e) with
        | None => None
        | Some (j', evs) => Some (0%nat, Nd j' (apply_events fixm fixg amb gord (nd_s n) evs), ob)
        end
    | ODeliver to mx mb cut amb gord ob =>
        let n := getn ns to in
        let up := getn ns (if to =? 1 then 0 else 1) in
        let d := journal_diff SZ (nd_j up) (j_loader (nd_j n)) mx mb in
        let d := if to =? 1 then d else map wire d in
        let d := takeZ cut d in
        match apply_update H (nd_j n) d (j_cur (nd_j up)) with
        | None => None
        | Some (j', evs) =>
            Some (Z.to_nat to, Nd j' (match evs with [] => nd_s n | _ => apply_events fixm fixg amb gord (nd_s n) evs end), ob)
        end
    | OReload k full hdr chunks amb gord ob =>
        let n := getn ns k in
        let total := fold_right Nat.add 0%nat chunks in
        if (full && negb (Nat.eqb total (length (j_entries (nd_j n))))) || (full && negb hdr) || (negb hdr && negb (Nat.eqb total 0))
           || (Nat.ltb (length (j_entries (nd_j n))) total)
        then None
        else
        match load_journal H (nd_j n) hdr chunks with
        | None => None
        | Some (j', batches) =>
            Some (Z.to_nat k, Nd j' (fold_left (fun s b => match b with [] => s | _ => apply_events fixm fixg amb gord s b end) batches init_storage), ob)
        end
    end.

  Definition step (ns : nodes) (o : op) : option nodes :=
    match post ns o with
    | Some (i, n', ob) => if obs_ok n' ob then Some (setn ns i n') else None
    | None => None
    end.

  Fixpoint run (ns : nodes) (ops : list op) : option nodes :=
    match ops with
    | [] => Some ns
    | o :: r => match step ns o with Some ns' => run ns' r | None => None end
    end.
End Run.

Definition list_eqb {A} (eq : A -> A -> bool) :=
  fix go (a b : list A) : bool :=
    match a, b with
    | [], [] => true
    | x :: a', y :: b' => eq x y && go a' b'
    | _, _ => false
    end.

(* final full observation of one node; map contents are compared as sets (keys are unique on both sides) *)
Definition final_ok (ns : nodes) (f : fobs) : bool :=
  let 'FO k entries mets byname groups gbyname nss nbyname := f in
  let n := getn ns k in
  let s := nd_s n in
  list_eqb event_eqb (j_entries (nd_j n)) entries &&
  Nat.eqb (length mets) (length (by_id s)) &&
  forallb (fun t => let '(id, ver, nm, grp) := t in
             match zget id (by_id s) with Some m => (m_id m =? id) && (m_ver m =? ver) && name_eqb (m_name m) nm && (m_group m =? grp) | None => false end) mets &&
  Nat.eqb (length byname) (length (by_name s)) &&
  forallb (fun t => let '(nm, id, ver, grp) := t in
             match nget nm (by_name s) with Some m => (m_id m =? id) && (m_ver m =? ver) && (m_group m =? grp) | None => false end) byname &&
  Nat.eqb (length groups) (length (g_by_id s)) &&
  forallb (fun t => let '(id, ver, nm, dis) := t in
             match zget id (g_by_id s) with Some g => (g_id g =? id) && (g_ver g =? ver) && name_eqb (g_name g) nm && Bool.eqb (g_disable g) dis | None => false end) groups &&
  Nat.eqb (length gbyname) (length (g_by_name s)) &&
  forallb (fun t => let '(nm, id) := t in match nget nm (g_by_name s) with Some g => g_id g =? id | None => false end) gbyname &&
  Nat.eqb (length nss) (length (n_by_id s)) &&
  forallb (fun t => let '(id, ver, nm) := t in
             match zget id (n_by_id s) with Some x => (n_id x =? id) && (n_ver x =? ver) && name_eqb (n_name x) nm | None => false end) nss &&
  Nat.eqb (length nbyname) (length (n_by_name s)) &&
  forallb (fun t => let '(nm, id) := t in match nget nm (n_by_name s) with Some x => n_id x =? id | None => false end) nbyname.

Definition init_nodes (compact : bool) : nodes :=
  [Nd (empty_journal false) init_storage; Nd (empty_journal compact) init_storage;
   Nd (empty_journal false) init_storage; Nd (empty_journal false) init_storage].

Definition hist_ok (fixm fixg : bool) (compact : bool) (ops : list op) (finals : list fobs) : bool :=
  match (let t := build_htab ops in run fixm fixg (hlookup t) (szlookup t) (init_nodes compact) ops) with
  | Some ns => forallb (final_ok ns) finals
  | None => false
  end.

(* the constants the model hard-codes, as the harness reads them from the packages *)
Definition consts : list Z :=
  [MetricEvent; DashboardEvent; MetricsGroupEvent; PromConfigEvent; NamespaceEvent;
   BuiltinGroupIDDefault; BuiltinGroupIDBuiltin; BuiltinGroupIDHost; BuiltinNamespaceIDDefault].

(* the model is dual for the recorded findings: the code as it is (false) or repaired (true) *)
Definition triple (e : event) : Z * Z * Z := (e_typ e, e_id e, e_ver e).
Definition triple_eqb (a b : Z * Z * Z) : bool :=
  let '(x1, y1, z1) := a in let '(x2, y2, z2) := b in (x1 =? x2) && (y1 =? y2) && (z1 =? z2).
Definition resp_eqb (a b : option (list (Z * Z * Z))) : bool :=
  match a, b with
  | None, None => true
  | Some x, Some y => list_eqb triple_eqb x y
  | _, _ => false
  end.
Definition answer (j : journal) (from mi mb : Z) : option (list (Z * Z * Z)) :=
  match journal_diff (fun e => Z.of_nat (length (e_name e)) + 60) j from mi mb with
  | [] => None
  | d => Some (map triple d)
  end.
Definition poll_ok (compact : bool) (b1 b2 : list event) (mi mb : Z) (cl : list pollc) : bool :=
  let H := fun _ : event => 0 in
  match apply_update H (empty_journal compact) b1 0 with
  | None => false
  | Some (j1, _) =>
      match apply_update H j1 b2 0 with
      | None => false
      | Some (j2, _) =>
          forallb (fun c => let 'PC from imm del := c in
                     resp_eqb (answer j1 from mi mb) imm &&
                     match answer j1 from mi mb with
                     | Some _ => resp_eqb None del
                     | None => resp_eqb (answer j2 from mi mb) del
                     end) cl
      end
  end.

Definition ok (c : case) : bool :=
  match c with
  | CPoll compact b1 b2 mi mb cl => poll_ok compact b1 b2 mi mb cl
  | CHist compact ops finals =>
      (* nested ifs: vm_compute is call-by-value, [||] would evaluate all four variants *)
      if hist_ok false false compact ops finals then true
      else if hist_ok true true compact ops finals then true
      else if hist_ok true false compact ops finals then true
      else hist_ok false true compact ops finals
  | CConsts cs => list_eqb Z.eqb cs consts
  end.

Definition mism := mismatches ok.
