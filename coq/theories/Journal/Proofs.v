(* C20 — lemmas about the state hash, group assignment and the name index. *)
From Coq Require Import ZArith List Bool Lia Permutation.
From SH Require Import Journal.Model.
Import ListNotations.
Open Scope Z_scope.

Definition keyof (e : event) : Z * Z := (e_typ e, e_id e).

Lemma same_key_iff a b : same_key a b = true <-> keyof a = keyof b.
Proof.
  unfold same_key, keyof. rewrite andb_true_iff, !Z.eqb_eq. split; [intros [-> ->]; reflexivity | intro E; inversion E; auto].
Qed.
Lemma same_key_false a b : same_key a b = false <-> keyof a <> keyof b.
Proof. rewrite <- same_key_iff. destruct (same_key a b); split; congruence. Qed.

(* ------------------------------------------------------------------------------------------ *)
(* state hash                                                                                 *)
(* ------------------------------------------------------------------------------------------ *)
  Lemma remove_key_none e l : find_key e l = None -> remove_key e l = l.
  Proof.
    unfold find_key, remove_key. induction l as [|x l IH]; simpl; [reflexivity|].
    destruct (same_key e x) eqn:E; [discriminate|]. intro F. simpl. rewrite IH by assumption. reflexivity.
  Qed.

  Lemma remove_key_absent e l : ~ In (keyof e) (map keyof l) -> remove_key e l = l.
  Proof.
    unfold remove_key. induction l as [|x l IH]; simpl; [reflexivity|]. intro N.
    destruct (same_key e x) eqn:E; [apply same_key_iff in E; exfalso; apply N; left; congruence|].
    simpl. rewrite IH; [reflexivity|]. intro I. apply N. right. exact I.
  Qed.

  Lemma remove_key_keys e l x : In x (remove_key e l) <-> In x l /\ keyof e <> keyof x.
  Proof. unfold remove_key. rewrite filter_In, negb_true_iff, same_key_false. tauto. Qed.

  Lemma nodup_filter {A B} (f : A -> B) (p : A -> bool) l : NoDup (map f l) -> NoDup (map f (filter p l)).
  Proof.
    induction l as [|x l IH]; simpl; intro ND; [constructor|]. inversion ND as [|? ? Hn Hd]; subst.
    destruct (p x); simpl; [constructor|]; auto. intro I. apply Hn. apply in_map_iff in I as [y [E Iy]].
    apply filter_In in Iy as [Iy _]. rewrite <- E. apply in_map. exact Iy.
  Qed.

  Lemma nodup_snoc {A} (l : list A) x : NoDup l -> ~ In x l -> NoDup (l ++ [x]).
  Proof.
    induction l as [|y l IH]; simpl; intros ND N; [constructor; [tauto|constructor]|].
    inversion ND; subst. constructor.
    - rewrite in_app_iff. simpl. intros [I|[E|[]]]; [tauto|]. apply N. left. congruence.
    - apply IH; [assumption|]. intro I. apply N. right. exact I.
  Qed.

  Lemma nodup_remove_add e l : NoDup (map keyof l) -> NoDup (map keyof (remove_key e l ++ [e])).
  Proof.
    intro ND. rewrite map_app. simpl. apply nodup_snoc.
    - apply nodup_filter. exact ND.
    - intro I. apply in_map_iff in I as [y [E Iy]]. apply remove_key_keys in Iy as [_ N]. congruence.
  Qed.

Section HashProofs.
  Variable H : event -> Z.

  Definition xor_all (l : list event) : Z := fold_right (fun e a => Z.lxor (H e) a) 0 l.

  Lemma xor_all_app a b : xor_all (a ++ b) = Z.lxor (xor_all a) (xor_all b).
  Proof. induction a; [simpl; symmetry; apply Z.lxor_0_l | simpl; rewrite IHa, Z.lxor_assoc; reflexivity]. Qed.

  Lemma xor_remove e o l : NoDup (map keyof l) -> find_key e l = Some o ->
    xor_all l = Z.lxor (H o) (xor_all (remove_key e l)).
  Proof.
    unfold find_key. induction l as [|x l IH]; simpl; [discriminate|]. intros ND F. inversion ND; subst.
    destruct (same_key e x) eqn:E.
    - inversion F; subst o. simpl. fold (remove_key e l). rewrite remove_key_absent; [reflexivity|].
      apply same_key_iff in E. rewrite E. assumption.
    - simpl. fold (remove_key e l). rewrite (IH H3 F). rewrite <- !Z.lxor_assoc, (Z.lxor_comm (H x) (H o)). reflexivity.
  Qed.


  (* the invariant addEventLocked maintains: the state hash is the xor of the hashes of the entries *)
  Definition hash_inv (j : journal) : Prop := NoDup (map keyof (j_entries j)) /\ j_hash j = xor_all (j_entries j).

  Lemma add_event_hash j e j' : hash_inv j -> add_event H j e = Some j' -> hash_inv j'.
  Proof.
    intros [ND HH]. unfold add_event. destruct (e_ver e <=? j_cur j); [discriminate|]. intro E. inversion E; subst j'; clear E.
    split; simpl; [apply nodup_remove_add; exact ND|].
    rewrite xor_all_app. simpl. rewrite Z.lxor_0_r. f_equal.
    destruct (find_key e (j_entries j)) as [o|] eqn:F.
    - rewrite HH, (xor_remove e o _ ND F). rewrite (Z.lxor_comm (H o)), Z.lxor_assoc, Z.lxor_nilpotent, Z.lxor_0_r. reflexivity.
    - rewrite Z.lxor_0_r, (remove_key_none _ _ F). exact HH.
  Qed.

  Lemma add_events_hash es : forall j j', hash_inv j -> add_events H j es = Some j' -> hash_inv j'.
  Proof.
    induction es as [|e r IH]; simpl; intros j j' I E; [inversion E; subst; exact I|].
    destruct (add_event H j e) as [j1|] eqn:A; [|discriminate]. eapply IH; [eapply add_event_hash; eassumption|exact E].
  Qed.

  Lemma apply_update_hash j src lk j' evs : hash_inv j -> apply_update H j src lk = Some (j', evs) -> hash_inv j'.
  Proof.
    intros I. unfold apply_update. destruct src as [|s0 sr]; [intro E; inversion E; subst; exact I|].
    destruct (add_events H j _) as [j1|] eqn:A; [|discriminate]. intro E. inversion E; subst. clear E.
    apply (add_events_hash _ _ _ I) in A. exact A.
  Qed.

  Lemma load_journal_hash saved hdr chunks j' b : load_journal H saved hdr chunks = Some (j', b) -> hash_inv j'.
  Proof.
    unfold load_journal. destruct (add_events H (empty_journal (j_compact saved)) _) as [j1|] eqn:A; [|discriminate].
    intro E. inversion E; subst. clear E. apply add_events_hash in A; [exact A|]. split; simpl; [constructor|reflexivity].
  Qed.

  Lemma xor_all_perm_map l1 l2 : Permutation (map H l1) (map H l2) -> xor_all l1 = xor_all l2.
  Proof.
    assert (G : forall l, xor_all l = fold_right Z.lxor 0 (map H l)) by (induction l; simpl; congruence).
    rewrite !G. generalize (map H l1) (map H l2). clear. intros a b P. induction P; simpl; try congruence.
    rewrite <- !Z.lxor_assoc, (Z.lxor_comm y x). reflexivity.
  Qed.

  (* two journals holding the same events up to order and version numbers have the same state hash *)
  Theorem equal_content_equal_hash (j1 j2 : journal) :
    (forall e v, H (set_ver e v) = H e) ->
    hash_inv j1 -> hash_inv j2 ->
    Permutation (map (fun e => set_ver e 0) (j_entries j1)) (map (fun e => set_ver e 0) (j_entries j2)) ->
    j_hash j1 = j_hash j2.
  Proof.
    intros HV [_ E1] [_ E2] P. rewrite E1, E2. apply xor_all_perm_map.
    apply (Permutation_map H) in P. rewrite !map_map in P.
    assert (G : forall l, map (fun x => H (set_ver x 0)) l = map H l) by (intro l; apply map_ext; intro; apply HV).
    rewrite !G in P. exact P.
  Qed.
End HashProofs.

(* ------------------------------------------------------------------------------------------ *)
(* group = longest enabled prefix                                                             *)
(* ------------------------------------------------------------------------------------------ *)
Lemma name_cmp_trans_ge : forall a b c, name_cmp a b <> Lt -> name_cmp b c <> Lt -> name_cmp a c <> Lt.
Proof.
  induction a as [|x a IH]; intros [|y b] [|z c]; simpl; try congruence.
  destruct (x ?= y) eqn:XY, (y ?= z) eqn:YZ; try congruence;
    try (apply Z.compare_eq in XY; subst); try (apply Z.compare_eq in YZ; subst);
    try rewrite Z.compare_refl; try rewrite XY; try rewrite YZ; try congruence; try (apply IH).
  - rewrite Z.compare_gt_iff in *. assert (G : (x ?= z) = Gt) by (apply Z.compare_gt_iff; lia). rewrite G. congruence.
Qed.

Lemma prefixes_cmp_len : forall s p q, has_prefix s p = true -> has_prefix s q = true -> name_cmp p q <> Lt ->
  (length q <= length p)%nat.
Proof.
  induction s as [|z s IH]; intros [|x p] [|y q]; simpl; intros; try discriminate; try lia; try congruence.
  apply andb_true_iff in H as [A B]. apply andb_true_iff in H0 as [C D]. apply Z.eqb_eq in A, C. subst.
  rewrite Z.compare_refl in H1. apply le_n_S. eapply IH; eassumption.
Qed.

Lemma sorted_desc_head : forall l a g, sorted_desc (a :: l) = true -> In g l -> name_cmp (g_name a) (g_name g) <> Lt.
Proof.
  induction l as [|b l IH]; intros a g S I; [destruct I|].
  simpl in S. destruct (name_cmp (g_name a) (g_name b)) eqn:C; try discriminate.
  - destruct I as [<-|I]; [congruence|]. apply name_cmp_trans_ge with (b := g_name b); [congruence|]. apply IH; assumption.
  - destruct I as [<-|I]; [congruence|]. apply name_cmp_trans_ge with (b := g_name b); [congruence|]. apply IH; assumption.
Qed.

Lemma sorted_desc_tail a l : sorted_desc (a :: l) = true -> sorted_desc l = true.
Proof. simpl. destruct l; [reflexivity|]. destruct (name_cmp (g_name a) (g_name g)); try discriminate; auto. Qed.

(* calcGroupForMetricLocked on a list sorted by name descending returns a group whose name is a prefix of the
   metric name and at least as long as every other matching group's name; the default when nothing matches *)
Theorem calc_group_longest_prefix : forall ordered nm,
  sorted_desc ordered = true ->
  (calc_group ordered nm = BuiltinGroupIDDefault /\ forall g, In g ordered -> has_prefix nm (g_name g) = false) \/
  (exists g, In g ordered /\ calc_group ordered nm = g_id g /\ has_prefix nm (g_name g) = true /\
     forall g', In g' ordered -> has_prefix nm (g_name g') = true -> (length (g_name g') <= length (g_name g))%nat).
Proof.
  induction ordered as [|a l IH]; intros nm S; simpl.
  - left. split; [reflexivity|]. intros g [].
  - destruct (has_prefix nm (g_name a)) eqn:P.
    + right. exists a. split; [left; reflexivity|]. split; [reflexivity|]. split; [exact P|].
      intros g' [<-|I] Pg; [lia|]. eapply prefixes_cmp_len; try eassumption. eapply sorted_desc_head; eassumption.
    + destruct (IH nm (sorted_desc_tail _ _ S)) as [[E N]|[g [I [E [Pg L]]]]].
      * left. split; [exact E|]. intros g [<-|I]; auto.
      * right. exists g. split; [right; exact I|]. split; [exact E|]. split; [exact Pg|].
        intros g' [<-|I'] Pg'; [congruence|]. apply L; assumption.
Qed.

(* the order rebuild installs is sorted, whatever tie order the implementation reported *)
Lemma ins_desc_sorted g : forall l, sorted_desc l = true -> sorted_desc (ins_desc g l) = true.
Proof.
  induction l as [|h r IH]; simpl; intro S; [reflexivity|].
  destruct (name_cmp (g_name g) (g_name h)) eqn:C.
  - simpl. rewrite C. exact S.
  - specialize (IH (sorted_desc_tail _ _ S)). destruct r as [|b r]; simpl in *.
    + assert (G : name_cmp (g_name h) (g_name g) <> Lt).
      { intro X. clear -C X. revert C X. generalize (g_name g) (g_name h). induction n as [|x n IH]; intros [|y m]; simpl; try congruence.
        destruct (x ?= y) eqn:XY; try congruence.
        - apply Z.compare_eq in XY. subst. rewrite Z.compare_refl. apply IH.
        - rewrite Z.compare_antisym, XY. simpl. congruence. }
      destruct (name_cmp (g_name h) (g_name g)); congruence.
    + destruct (name_cmp (g_name g) (g_name b)) eqn:C2.
      * simpl in IH. destruct (name_cmp (g_name h) (g_name b)) eqn:HB; try discriminate;
        assert (G : name_cmp (g_name h) (g_name g) <> Lt) by
          (intro X; clear -C X; revert C X; generalize (g_name g) (g_name h); induction n as [|x n IH]; intros [|y m]; simpl; try congruence;
           destruct (x ?= y) eqn:XY; try congruence; [apply Z.compare_eq in XY; subst; rewrite Z.compare_refl; apply IH | rewrite Z.compare_antisym, XY; simpl; congruence]);
        destruct (name_cmp (g_name h) (g_name g)); try congruence; exact IH.
      * destruct (name_cmp (g_name h) (g_name b)) eqn:HB; try discriminate; exact IH.
      * assert (G : name_cmp (g_name h) (g_name g) <> Lt) by
          (intro X; clear -C X; revert C X; generalize (g_name g) (g_name h); induction n as [|x n IH]; intros [|y m]; simpl; try congruence;
           destruct (x ?= y) eqn:XY; try congruence; [apply Z.compare_eq in XY; subst; rewrite Z.compare_refl; apply IH | rewrite Z.compare_antisym, XY; simpl; congruence]).
        destruct (name_cmp (g_name h) (g_name g)); try congruence; exact IH.
  - simpl. rewrite C. exact S.
Qed.

Lemma sort_desc_sorted l : sorted_desc (sort_desc l) = true.
Proof. induction l as [|a l IH]; simpl; [reflexivity|apply ins_desc_sorted; exact IH]. Qed.

Lemma ins_desc_in g x : forall l, In x (ins_desc g l) <-> x = g \/ In x l.
Proof.
  induction l as [|h r IH]; simpl; [intuition|].
  destruct (name_cmp (g_name g) (g_name h)); simpl; rewrite ?IH; intuition.
Qed.
Lemma sort_desc_in x : forall l, In x (sort_desc l) <-> In x l.
Proof. induction l as [|a l IH]; simpl; [tauto|]. rewrite ins_desc_in, IH. intuition. Qed.

Lemma pick_order_sorted enabled gord : sorted_desc (pick_order enabled gord) = true.
Proof.
  unfold pick_order. match goal with |- context [if ?c then _ else _] => destruct c eqn:C end; [|apply sort_desc_sorted].
  apply andb_true_iff in C as [C _]. apply andb_true_iff in C as [C _]. apply andb_true_iff in C as [_ C]. exact C.
Qed.

(* after the rebuild that follows every change of a group's existence, name or disable flag: the installed order
   is sorted by name descending and every metric carries the group calcGroupForMetricLocked finds in it *)
Theorem rebuild_assigns_groups fixm amb gord s :
  let s' := rebuild fixm amb gord s in
  sorted_desc (g_ordered s') = true /\
  (forall id m, In (id, m) (by_id s') -> m_group m = calc_group (g_ordered s') (m_name m)) /\
  (gord = [] -> forall g, In g (g_ordered s') <-> In g (enabled_groups s)).
Proof.
  simpl. split; [apply pick_order_sorted|split].
  - intros id m I. unfold rebuild in I. simpl in I. apply in_map_iff in I as (m0 & E & I). inversion E; subst; clear E.
    apply in_map_iff in I as (p & <- & _). reflexivity.
  - intros -> g. unfold rebuild, pick_order. simpl. apply sort_desc_in.
Qed.

(* ---- the name index: the code as it is loses a metric; the repaired variant does not (same inputs) ---- *)
Definition mk_metric (id ver : Z) (nm : name) : event := Ev MetricEvent id ver nm 1 0 0 0 0 (Dt false false false 0 0).
Definition wit_before : storage := apply_events false false [] [] init_storage [mk_metric 1 1 [120]].
Definition wit_batch : list event := [mk_metric 2 3 [120]; mk_metric 1 4 [121]].

(* exactly one metric of the by-id map holds the name, and the lookup by that name finds nothing *)
Theorem lookup_by_name_refuted :
  exists (s : storage) (batch : list event) (id : Z) (nm : name),
    let s' := apply_events false false [] [] s batch in
    map m_id (holders nm (map snd (by_id s'))) = [id] /\ nget nm (by_name s') = None.
Proof. exists wit_before, wit_batch, 2, [120]. vm_compute. split; reflexivity. Qed.

Example lookup_by_name_repaired_on_witness :
  let s' := apply_events true true [] [] wit_before wit_batch in
  option_map m_id (nget [120] (by_name s')) = Some 2 /\ option_map m_id (nget [121] (by_name s')) = Some 1.
Proof. vm_compute. split; reflexivity. Qed.

(* ---- F-C20c: version numbers of compact journals are private to each journal ---- *)
Definition c_x1 : event := Ev MetricEvent 1 1 [120] 1 0 0 0 0 (Dt false false false 0 0).
Definition c_x2 : event := Ev MetricEvent 1 2 [120] 1 0 0 0 0 (Dt false false false 5 0).
Definition c_x3 : event := Ev MetricEvent 1 3 [120] 1 0 0 0 0 (Dt false false false 0 0).   (* the edit undone *)
Definition upd0 (j : journal) (src : list event) (lk : Z) : journal :=
  match apply_update (fun _ => 0) j src lk with Some (j', _) => j' | None => j end.
Definition c_L : journal := upd0 (upd0 (empty_journal true) [c_x1] 1) [c_x3] 3.        (* saw versions 1 and 3 *)
Definition c_A : journal := upd0 (empty_journal true) [c_x2] 2.                        (* started at version 2 *)
Definition c_agent : journal :=
  upd0 (empty_journal false) (map wire (journal_diff (fun _ => 0) c_A 0 1000 1000000)) 2.

(* the aggregator journal L holds the source's latest content (under its OLD version number 1); an agent that synced
   from the other compact journal A (cursor 2) and now follows L is never sent anything, yet holds different content *)
Theorem compact_cursor_not_transferable :
  exists (L agent : journal) (latest : event),
    map (fun e => set_ver e 0) (j_entries L) = [set_ver latest 0] /\
    journal_diff (fun _ => 0) L (j_loader agent) 1000 1000000 = [] /\
    map (fun e => set_ver e 0) (j_entries agent) <> map (fun e => set_ver (wire e) 0) (j_entries L).
Proof.
  exists c_L, c_agent, (match compact_event c_x3 with Some e => e | None => c_x3 end). vm_compute.
  split; [reflexivity|]. split; [reflexivity|]. discriminate.
Qed.
