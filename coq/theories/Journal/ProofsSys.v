(* C20 — the chain source -> aggregator journal -> agent journal as a transition system; convergence. *)
From Coq Require Import ZArith List Bool Lia Sorted.
From SH Require Import Journal.Model Journal.Proofs Journal.ProofsConv.
Import ListNotations.
Open Scope Z_scope.

Lemma take_limits_prefix sz mi mb : forall l n b, exists k, take_limits sz mi mb n b l = firstn k l.
Proof.
  induction l as [|e r IH]; intros n b; simpl; [exists 0%nat; reflexivity|].
  destruct ((mi <=? n + 1) || (mb <=? b + sz e)); [exists 1%nat; destruct r; reflexivity|].
  destruct (IH (n + 1) (b + sz e)) as [k ->]. exists (S k). reflexivity.
Qed.

Lemma firstn_firstn_ex {A} a b (l : list A) : exists k, firstn a (firstn b l) = firstn k l.
Proof. exists (Nat.min a b). apply firstn_firstn. Qed.

(* every answer of getJournalDiffLocked3Limits, cut anywhere, is a prefix of the entries above the cursor *)
Lemma diff_is_prefix sz U from mi mb n :
  exists k, firstn n (journal_diff sz U from mi mb) = firstn k (filter (fun e => from <? e_ver e) (j_entries U)).
Proof.
  unfold journal_diff. destruct (j_cur U <=? from); [exists 0%nat; rewrite firstn_nil; reflexivity|].
  destruct (take_limits_prefix sz mi mb (filter (fun e => from <? e_ver e) (j_entries U)) 0 0) as [k ->]. apply firstn_firstn_ex.
Qed.

Section Sys.
  Variable H : event -> Z.

  Record sys := Sys { sS : journal; sM : journal; sA : journal }.
  Definition init : sys := Sys (empty_journal false) (empty_journal false) (empty_journal false).

  (* all histories: source edits, deliveries with any limits and any cut, reloads of files truncated anywhere
     (C21: a truncated file yields a prefix of the chunks; without the first chunk nothing is read) *)
  Inductive sstep : sys -> sys -> Prop :=
  | st_edit s e S' : add_event H (sS s) e = Some S' -> sstep s (Sys S' (sM s) (sA s))
  | st_deliverM s sz mi mb n lk M' evs :
      apply_update H (sM s) (firstn n (journal_diff sz (sS s) (j_loader (sM s)) mi mb)) lk = Some (M', evs) ->
      sstep s (Sys (sS s) M' (sA s))
  | st_deliverA s sz mi mb n lk A' evs :
      apply_update H (sA s) (map wire (firstn n (journal_diff sz (sM s) (j_loader (sA s)) mi mb))) lk = Some (A', evs) ->
      sstep s (Sys (sS s) (sM s) A')
  | st_reloadM s hdr chunks M' b :
      (hdr = false -> fold_right Nat.add 0%nat chunks = 0%nat) ->
      load_journal H (sM s) hdr chunks = Some (M', b) -> sstep s (Sys (sS s) M' (sA s))
  | st_reloadA s hdr chunks A' b :
      (hdr = false -> fold_right Nat.add 0%nat chunks = 0%nat) ->
      load_journal H (sA s) hdr chunks = Some (A', b) -> sstep s (Sys (sS s) (sM s) A').

  Inductive reach : sys -> Prop :=
  | r_init : reach init
  | r_step s s' : reach s -> sstep s s' -> reach s'.

  Definition idf (e : event) : event := e.
  Lemma pres_id : preserves idf. Proof. intro e. split; reflexivity. Qed.
  Lemma pres_wire : preserves wire. Proof. intro e. split; reflexivity. Qed.

  Definition Inv (s : sys) : Prop :=
    wfj (sS s) /\ wfj (sM s) /\ wfj (sA s) /\ posj (sM s) /\ posj (sA s) /\
    Rep idf (sS s) (sM s) /\ Rep wire (sS s) (sA s) /\ j_compact (sM s) = false /\ j_compact (sA s) = false.

  Lemma add_events_pos es : forall j j', posj j -> add_events H j es = Some j' -> posj j'.
  Proof.
    induction es as [|e r IH]; simpl; intros j j' P E; [inversion E; subst; exact P|].
    destruct (add_event H j e) as [j1|] eqn:A; [|discriminate]. eapply IH; [eapply add_event_pos; eassumption|exact E].
  Qed.

  Lemma apply_update_pos j src lk j' evs : j_compact j = false -> posj j -> apply_update H j src lk = Some (j', evs) -> posj j'.
  Proof.
    intros NC P. unfold apply_update. destruct src as [|s0 sr]; [intro E; inversion E; subst; exact P|]. rewrite NC.
    destruct (add_events H j (s0 :: sr)) as [j1|] eqn:A; [|discriminate]. intro E. inversion E; subst.
    apply (add_events_pos _ _ _ P) in A. exact A.
  Qed.

  Lemma inv_init : Inv init.
  Proof.
    assert (W : wfj (empty_journal false)) by (split; [constructor|split; constructor]).
    assert (P : posj (empty_journal false)) by (split; [simpl; lia|constructor]).
    assert (R : forall g, Rep g (empty_journal false) (empty_journal false)).
    { intro g. split; [intros e []|split; [intros r []|simpl; lia]]. }
    unfold Inv, init; simpl. repeat split; try apply W; try apply P; try apply R; reflexivity.
  Qed.

  Lemma inv_step s s' : Inv s -> sstep s s' -> Inv s'.
  Proof.
    intros (WS & WM & WA & PM & PA & RM & RA & CM & CA) St. destruct St; unfold Inv; simpl.
    - pose proof (add_event_wf H _ _ _ WS H0) as WS'.
      pose proof (rep_source_edit H idf _ _ _ _ pres_id WS RM H0). pose proof (rep_source_edit H wire _ _ _ _ pres_wire WS RA H0). tauto.
    - destruct (diff_is_prefix sz (sS s) (j_loader (sM s)) mi mb n) as [k E]. rewrite E in H0.
      rewrite <- (map_id (firstn k _)) in H0.
      assert (RS : RepAt idf (sS s) (sS s) (j_cur (sS s))).
      { split; [intros e I _; exact I|split; [intros r I; exists r; split; [exact I|split; [reflexivity|left; reflexivity]]|lia]]. }
      change (fun x : event => x) with idf in H0.
      destruct (rep_deliver H idf idf idf _ _ _ _ _ _ _ _ pres_id pres_id (fun e => eq_refl) WS WS WM RS RM CM H0) as (W' & R' & C').
      pose proof (apply_update_pos _ _ _ _ _ CM PM H0). tauto.
    - destruct (diff_is_prefix sz (sM s) (j_loader (sA s)) mi mb n) as [k E]. rewrite E in H0.
      destruct (rep_deliver H idf wire wire _ _ _ _ _ _ _ _ pres_id pres_wire (fun e => eq_refl) WS WM WA RM RA CA H0) as (W' & R' & C').
      pose proof (apply_update_pos _ _ _ _ _ CA PA H0). tauto.
    - destruct (rep_reload H idf _ _ _ _ _ _ pres_id WM PM RM H0 H1) as (W' & P' & R' & C' & _). rewrite C', CM. tauto.
    - destruct (rep_reload H wire _ _ _ _ _ _ pres_wire WA PA RA H0 H1) as (W' & P' & R' & C' & _). rewrite C', CA. tauto.
  Qed.

  Lemma reach_inv s : reach s -> Inv s.
  Proof. induction 1; [apply inv_init|eapply inv_step; eassumption]. Qed.

  (* every replica that has caught up with the source's version holds exactly the source's latest events, in the
     same order (the agent: as sent over one RPC hop); no step of the chain can hit a panic of addEventLocked
     except by the premise of the step itself being undefined *)
  Theorem replica_converges s : reach s ->
    (j_cur (sS s) <= j_loader (sM s) -> j_entries (sM s) = j_entries (sS s)) /\
    (j_cur (sS s) <= j_loader (sA s) -> j_entries (sA s) = map wire (j_entries (sS s))).
  Proof.
    intro R. apply reach_inv in R as (WS & WM & WA & PM & PA & RM & RA & CM & CA). split; intro L.
    - rewrite (rep_converged H idf _ _ pres_id WS WM RM L). apply map_id.
    - exact (rep_converged H wire _ _ pres_wire WS WA RA L).
  Qed.

  (* deliveries along a reachable chain never panic (addEventLocked's "adding old element") *)
  Theorem deliveries_never_panic s sz mi mb n lk : reach s ->
    apply_update H (sM s) (firstn n (journal_diff sz (sS s) (j_loader (sM s)) mi mb)) lk <> None /\
    apply_update H (sA s) (map wire (firstn n (journal_diff sz (sM s) (j_loader (sA s)) mi mb))) lk <> None.
  Proof.
    intro R. apply reach_inv in R as (WS & WM & WA & PM & PA & RM & RA & CM & CA).
    assert (G : forall (U R0 : journal) (h : event -> event) k, preserves h -> wfj U -> wfj R0 -> j_compact R0 = false -> j_cur R0 <= j_loader R0 ->
              apply_update H R0 (map h (firstn k (filter (fun e => j_loader R0 <? e_ver e) (j_entries U)))) lk <> None).
    { intros U R0 h k Ph (SU & NDU & FU) WR NC CL. unfold apply_update.
      destruct (map h (firstn k (filter (fun e => j_loader R0 <? e_ver e) (j_entries U)))) as [|s0 sr] eqn:E; [discriminate|]. rewrite NC, <- E.
      set (src0 := firstn k (filter (fun e => j_loader R0 <? e_ver e) (j_entries U))).
      assert (BOK : batch_ok R0 (map h src0)).
      { split; [|split].
        - assert (SS0 : StronglySorted vlt src0) by (apply ss_firstn, ss_filter; exact SU).
          clear -SS0 Ph. induction src0 as [|a l IH]; simpl; [constructor|]. inversion SS0 as [|? ? Sr Sa]; subst. constructor; [auto|].
          rewrite Forall_forall in *. intros x I. apply in_map_iff in I as [y [<- Iy]]. unfold vlt. rewrite (proj2 (Ph a)), (proj2 (Ph y)). apply Sa, Iy.
        - assert (X : NoDup (map keyof src0)) by (unfold src0; rewrite <- firstn_map; apply nodup_firstn, nodup_filter, NDU).
          rewrite map_map. erewrite map_ext by (intro; apply (proj1 (Ph _))). exact X.
        - rewrite Forall_forall. intros x I. apply in_map_iff in I as [y [<- Iy]]. rewrite (proj2 (Ph y)).
          apply firstn_In, filter_In in Iy as [_ Cy]. apply Z.ltb_lt in Cy. lia. }
      destruct (add_events_spec H _ R0 WR BOK) as (j' & A' & _). rewrite A'. discriminate. }
    split.
    - destruct (diff_is_prefix sz (sS s) (j_loader (sM s)) mi mb n) as [k ->]. rewrite <- (map_id (firstn k _)).
      apply (G (sS s) (sM s) (fun x => x) k); try assumption; [intro; split; reflexivity|apply RM].
    - destruct (diff_is_prefix sz (sM s) (j_loader (sA s)) mi mb n) as [k ->].
      apply (G (sM s) (sA s) wire k); try assumption; [apply pres_wire|apply RA].
  Qed.

  (* ---- progress: a replica that is behind is always sent something ---- *)
  (* currentVersion is the version of an entry (or the journal never held anything) *)
  Definition curin (j : journal) : Prop :=
    (j_entries j = [] /\ j_cur j = 0) \/ (exists e, In e (j_entries j) /\ e_ver e = j_cur j).

  Lemma take_limits_nonempty sz mi mb n b l : l <> [] -> take_limits sz mi mb n b l <> [].
  Proof. destruct l as [|e r]; [congruence|]. intros _. simpl. destruct ((mi <=? n + 1) || (mb <=? b + sz e)); discriminate. Qed.

  (* whatever the item and byte limits are (even zero or below one event's size) *)
  Lemma diff_progress sz j from mi mb : curin j -> 0 <= from -> from < j_cur j -> journal_diff sz j from mi mb <> [].
  Proof.
    intros [[_ C]|(e & I & E)] F L; [lia|]. unfold journal_diff.
    destruct (j_cur j <=? from) eqn:Q; [apply Z.leb_le in Q; lia|]. apply take_limits_nonempty.
    intro N. assert (X : In e (filter (fun x => from <? e_ver x) (j_entries j))) by (apply filter_In; split; [exact I|apply Z.ltb_lt; lia]).
    rewrite N in X. destruct X.
  Qed.

  Lemma add_event_curin j e j' : add_event H j e = Some j' -> curin j'.
  Proof. intro A. apply add_event_spec in A as (_ & E & C & _). right. exists e. rewrite E, C, in_app_iff. simpl. tauto. Qed.

  Lemma add_events_curin es : forall j j', curin j -> add_events H j es = Some j' -> curin j'.
  Proof.
    induction es as [|e r IH]; simpl; intros j j' C E; [inversion E; subst; exact C|].
    destruct (add_event H j e) as [j1|] eqn:A; [|discriminate]. eapply IH; [eapply add_event_curin; exact A|exact E].
  Qed.

  Lemma apply_update_curin j src lk j' evs : curin j -> apply_update H j src lk = Some (j', evs) -> curin j'.
  Proof.
    intro C. unfold apply_update. destruct src as [|s0 sr]; [intro E; inversion E; subst; exact C|].
    destruct (add_events H j _) as [j1|] eqn:A; [|discriminate]. intro E. inversion E; subst.
    apply (add_events_curin _ _ _ C) in A. exact A.
  Qed.

  Lemma load_journal_curin saved hdr chunks j' b : load_journal H saved hdr chunks = Some (j', b) -> curin j'.
  Proof.
    unfold load_journal. destruct (add_events H (empty_journal (j_compact saved)) _) as [j1|] eqn:A; [|discriminate].
    intro E. inversion E; subst. apply add_events_curin in A; [exact A|]. left. split; reflexivity.
  Qed.

  Lemma reach_curin s : reach s -> curin (sS s) /\ curin (sM s) /\ curin (sA s).
  Proof.
    induction 1 as [|s s' R IH St]; [repeat split; left; split; reflexivity|]. destruct IH as (CS & CM & CA).
    destruct St; simpl; repeat split; try assumption.
    - eapply add_event_curin; eassumption.
    - eapply apply_update_curin; [exact CM|eassumption].
    - eapply apply_update_curin; [exact CA|eassumption].
    - eapply load_journal_curin; eassumption.
    - eapply load_journal_curin; eassumption.
  Qed.

  (* along the chain, a node whose cursor is behind its upstream's version receives a non-empty answer for every
     choice of the limits; so "the diff is empty" happens only when the cursor has reached the upstream's version *)
  Theorem delivery_makes_progress s sz mi mb : reach s ->
    (j_loader (sM s) < j_cur (sS s) -> journal_diff sz (sS s) (j_loader (sM s)) mi mb <> []) /\
    (j_loader (sA s) < j_cur (sM s) -> journal_diff sz (sM s) (j_loader (sA s)) mi mb <> []).
  Proof.
    intro R. destruct (reach_curin s R) as (CS & CM & _).
    apply reach_inv in R as (WS & WM & WA & PM & PA & RM & RA & CM' & CA').
    destruct PM as (PM & _). destruct PA as (PA & _). destruct RM as (_ & _ & RMc). destruct RA as (_ & _ & RAc).
    split; intro L; apply diff_progress; try assumption; lia.
  Qed.

  (* hence: both diffs empty <-> both cursors have reached the source's version, where replica_converges applies *)
  Theorem empty_diffs_mean_converged s sz mi mb : reach s ->
    journal_diff sz (sS s) (j_loader (sM s)) mi mb = [] ->
    journal_diff sz (sM s) (j_loader (sA s)) mi mb = [] ->
    j_entries (sM s) = j_entries (sS s) /\ j_entries (sA s) = map wire (j_entries (sS s)).
  Proof.
    intros R D1 D2. destruct (delivery_makes_progress s sz mi mb R) as (P1 & P2).
    destruct (reach_curin s R) as (CS & CM & _).
    pose proof (reach_inv s R) as (WS & WM & WA & PM & PA & RM & RA & _).
    assert (L1 : j_cur (sS s) <= j_loader (sM s)) by (destruct (Z_le_gt_dec (j_cur (sS s)) (j_loader (sM s))); [assumption|exfalso; apply P1; [lia|exact D1]]).
    assert (L2 : j_cur (sM s) <= j_loader (sA s)) by (destruct (Z_le_gt_dec (j_cur (sM s)) (j_loader (sA s))); [assumption|exfalso; apply P2; [lia|exact D2]]).
    destruct (replica_converges s R) as (E1 & E2). pose proof (E1 L1) as EM. split; [exact EM|]. apply E2.
    (* currentVersion of M equals that of S once M holds S's entries *)
    destruct CS as [[ES C0]|(e & Ie & Ee)].
    - destruct RA as (_ & _ & RAc). destruct PA as (PA & _). lia.
    - destruct WM as (_ & _ & FM). rewrite Forall_forall in FM. rewrite <- EM in Ie. specialize (FM _ Ie). lia.
  Qed.
End Sys.
