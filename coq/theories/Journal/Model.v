(* C20 — metadata replicas: the journal and the in-memory metric indexes.
   Model of: internal/metajournal/journal_fast.go   (addEventLocked, applyUpdate incl. compact mode,
               compactJournalEvent, save/load incl. the loaderVersion rule, finishUpdateLocked),
             internal/metajournal/journal_fast_rpc.go (getJournalDiffLocked3Limits),
             internal/metajournal/meta_metrics.go   (MetricsStorage.ApplyEvent, calcGroupForMetricLocked),
             internal/metajournal/event_converters.go (which events ApplyEvent can parse).
   Executable definitions only.

   Representation.  The Go journal is a map (type,id) -> event plus a btree ordered by version holding one
   node per map entry; the model keeps ONE list [j_entries] in version order (what order.Ascend visits).
   Event payloads (JSON) are abstracted to the token [data]: whether the JSON parses, the "disable" flag,
   whether the string is the compacted re-marshalled form, the resolution and the description variant.
   xxh3 of an event without its version is the parameter [H]. *)
From Coq Require Import ZArith List Bool.
Import ListNotations.
Open Scope Z_scope.

(* ------------------------------------------------------------------------------------------ *)
(* names: Go strings as byte lists                                                            *)
(* ------------------------------------------------------------------------------------------ *)
Definition name := list Z.

Fixpoint name_eqb (a b : name) : bool :=
  match a, b with
  | [], [] => true
  | x :: a', y :: b' => (x =? y) && name_eqb a' b'
  | _, _ => false
  end.

(* strings.HasPrefix(s, p) *)
Fixpoint has_prefix (s p : name) : bool :=
  match p, s with
  | [], _ => true
  | x :: p', y :: s' => (x =? y) && has_prefix s' p'
  | _ :: _, [] => false
  end.

(* cmp.Compare on strings: bytewise lexicographic *)
Fixpoint name_cmp (a b : name) : comparison :=
  match a, b with
  | [], [] => Eq
  | [], _ :: _ => Lt
  | _ :: _, [] => Gt
  | x :: a', y :: b' => match x ?= y with Eq => name_cmp a' b' | c => c end
  end.

(* ------------------------------------------------------------------------------------------ *)
(* events                                                                                     *)
(* ------------------------------------------------------------------------------------------ *)
Definition MetricEvent : Z := 0.
Definition DashboardEvent : Z := 1.
Definition MetricsGroupEvent : Z := 2.
Definition PromConfigEvent : Z := 3.
Definition NamespaceEvent : Z := 4.
Definition BuiltinGroupIDDefault : Z := -4.
Definition BuiltinGroupIDBuiltin : Z := -2.
Definition BuiltinGroupIDHost : Z := -3.
Definition BuiltinNamespaceIDDefault : Z := -5.

(* Dt broken disable compacted res desc:
   broken    – Data is not valid JSON for the entity (the converters return an error);
   disable   – "disable":true;
   compacted – Data is a string the harness does not know (never produced by the model: json.Marshal inside
               compactJournalEvent yields, for the payloads used, the same string as the source's own
               serialisation of the compacted content; == on events compares strings);
   res       – "resolution" (0 = omitted);   desc – description variant (0 = empty, 3 = one that contains a
               mark keepCompactMetricDescription keeps). *)
Inductive data := Dt (broken disable compacted : bool) (res desc : Z).

Record event := Ev {
  e_typ : Z; e_id : Z; e_ver : Z; e_name : name;
  e_mask : Z;       (* FieldMask: bit 0 NamespaceId present, bit 1 Metadata present *)
  e_ns : Z; e_upd : Z; e_unused : Z;
  e_meta : Z;       (* Metadata string token, 0 = "" *)
  e_data : data }.

Definition data_eqb (a b : data) : bool :=
  match a, b with
  | Dt b1 d1 c1 r1 s1, Dt b2 d2 c2 r2 s2 =>
      Bool.eqb b1 b2 && Bool.eqb d1 d2 && Bool.eqb c1 c2 && (r1 =? r2) && (s1 =? s2)
  end.

Definition set_ver (e : event) (v : Z) : event :=
  Ev (e_typ e) (e_id e) v (e_name e) (e_mask e) (e_ns e) (e_upd e) (e_unused e) (e_meta e) (e_data e).

(* equalWithoutVersionJournalEvent *)
Definition event_eqb_nover (a b : event) : bool :=
  (e_typ a =? e_typ b) && (e_id a =? e_id b) && name_eqb (e_name a) (e_name b) && (e_mask a =? e_mask b) &&
  (e_ns a =? e_ns b) && (e_upd a =? e_upd b) && (e_unused a =? e_unused b) && (e_meta a =? e_meta b) &&
  data_eqb (e_data a) (e_data b).
Definition event_eqb (a b : event) : bool := (e_ver a =? e_ver b) && event_eqb_nover a b.

Definition same_key (a b : event) : bool := (e_typ a =? e_typ b) && (e_id a =? e_id b).

Definition d_broken (d : data) := let 'Dt b _ _ _ _ := d in b.
Definition d_disable (d : data) := let 'Dt _ x _ _ _ := d in x.

Definition fits_i32 (x : Z) : bool := (-2147483648 <=? x) && (x <=? 2147483647).
(* MetricMetaFromEvent / GroupMetaFromEvent / NamespaceMetaFromEvent succeed *)
Definition parses (e : event) : bool := fits_i32 (e_id e) && negb (d_broken (e_data e)).

(* what one RPC hop does to an event (getJournalDiffLocked3 + TL serialisation):
   FieldMask = 0; SetNamespaceId(NamespaceId); the metadata string is not sent. *)
Definition wire (e : event) : event :=
  Ev (e_typ e) (e_id e) (e_ver e) (e_name e) 1 (e_ns e) (e_upd e) (e_unused e) 0 (e_data e).

(* compactJournalEvent: None = discard, Some e' = keep (e' = e for everything kept unchanged).
   Metric events: description dropped unless kept by its marks, resolution 1 -> omitted, Data re-marshalled,
   metadata cleared, Unused and UpdateTime zeroed.  Broken metric events are kept as they are. *)
Definition compact_event (e : event) : option event :=
  if (e_typ e =? DashboardEvent) || (e_typ e =? PromConfigEvent) then None
  else if negb (e_typ e =? MetricEvent) then Some e
  else if negb (parses e) then Some e
  else let 'Dt _ dis _ res desc := e_data e in
       Some (Ev (e_typ e) (e_id e) (e_ver e) (e_name e)
                (if Z.testbit (e_mask e) 1 then e_mask e - 2 else e_mask e)
                (e_ns e) 0 0 0
                (Dt false dis false (if res =? 1 then 0 else res) (if desc =? 3 then 3 else 0))).

(* ------------------------------------------------------------------------------------------ *)
(* JournalFast                                                                                *)
(* ------------------------------------------------------------------------------------------ *)
Record journal := Jn {
  j_entries : list event;   (* version order *)
  j_cur : Z;                (* currentVersion *)
  j_loader : Z;             (* loaderVersion: the cursor sent upstream *)
  j_known : Z;              (* lastKnownVersion *)
  j_hash : Z;               (* stateHash (xor of entry hashes) *)
  j_compact : bool }.

Definition empty_journal (compact : bool) : journal := Jn [] 0 0 0 0 compact.

Definition find_key (k : event) (l : list event) : option event := find (same_key k) l.
Definition remove_key (k : event) (l : list event) : list event := filter (fun x => negb (same_key k x)) l.

Section Hash.
  Variable H : event -> Z.   (* hashWithoutVersionJournalEvent: must not look at e_ver *)

  (* addEventLocked; None = one of its panics *)
  Definition add_event (j : journal) (e : event) : option journal :=
    if e_ver e <=? j_cur j then None
    else
      let oldh := match find_key e (j_entries j) with Some o => H o | None => 0 end in
      Some (Jn (remove_key e (j_entries j) ++ [e]) (e_ver e) (j_loader j) (j_known j)
               (Z.lxor (Z.lxor (j_hash j) oldh) (H e)) (j_compact j)).

  Fixpoint add_events (j : journal) (es : list event) : option journal :=
    match es with
    | [] => Some j
    | e :: r => match add_event j e with Some j' => add_events j' r | None => None end
    end.

  (* the compact-mode filter of applyUpdate: compares with the journal as it was BEFORE the batch *)
  Fixpoint compact_batch (entries : list event) (src : list event) : list event :=
    match src with
    | [] => []
    | e :: r =>
        match compact_event e with
        | None => compact_batch entries r
        | Some e' =>
            match find_key e' entries with
            | Some old => if event_eqb_nover old e' then compact_batch entries r else e' :: compact_batch entries r
            | None => e' :: compact_batch entries r
            end
        end
    end.

  (* applyUpdate(src, lastKnownVersion): (journal, events handed to the ApplyEvent callbacks) *)
  Definition apply_update (j : journal) (src : list event) (last_known : Z) : option (journal * list event) :=
    match src with
    | [] => Some (j, [])
    | _ =>
        let new_loader := e_ver (last (src) (Ev 0 0 0 [] 0 0 0 0 0 (Dt false false false 0 0))) in
        let src' := if j_compact j then compact_batch (j_entries j) src else src in
        match add_events j src' with
        | None => None
        | Some j' => Some (Jn (j_entries j') (j_cur j') new_loader last_known (j_hash j') (j_compact j'), src')
        end
    end.

  (* getJournalDiffLocked3Limits(verNumb, maxItems, maxBytes); sz = len(Name)+len(Data)+60 of an event *)
  Fixpoint take_limits (sz : event -> Z) (max_items max_bytes : Z) (n bytes : Z) (l : list event) : list event :=
    match l with
    | [] => []
    | e :: r =>
        let n' := n + 1 in
        let bytes' := bytes + sz e in
        if (max_items <=? n') || (max_bytes <=? bytes') then [e] else e :: take_limits sz max_items max_bytes n' bytes' r
    end.

  Definition journal_diff (sz : event -> Z) (j : journal) (from max_items max_bytes : Z) : list event :=
    if j_cur j <=? from then []
    else take_limits sz max_items max_bytes 0 0 (filter (fun e => from <? e_ver e) (j_entries j)).

  (* save: header (loaderVersion, currentVersion) + the entries in order.
     load of a (possibly truncated) file: [chunks] = how many events each chunk that was read back held
     (C21: a truncated file yields a prefix of the written chunks); [hdr] = the first chunk was read. *)
  Fixpoint split_chunks {A} (l : list A) (chunks : list nat) : list (list A) :=
    match chunks with
    | [] => []
    | n :: r => firstn n l :: split_chunks (skipn n l) r
    end.

  Definition load_journal (saved : journal) (hdr : bool) (chunks : list nat) : option (journal * list (list event)) :=
    let n := fold_right Nat.add 0%nat chunks in
    let evs := firstn n (j_entries saved) in
    match add_events (empty_journal (j_compact saved)) evs with
    | None => None
    | Some j =>
        let lv := if hdr then j_loader saved else 0 in
        let lastv := if hdr then j_cur saved else 0 in
        let loader := if (lastv =? j_cur j) && (j_cur j <=? lv) then lv else j_cur j in
        Some (Jn (j_entries j) (j_cur j) loader (j_cur j) (j_hash j) (j_compact j), split_chunks evs chunks)
    end.
End Hash.

(* ------------------------------------------------------------------------------------------ *)
(* MetricsStorage                                                                             *)
(* ------------------------------------------------------------------------------------------ *)
Record metric := Mt { m_id : Z; m_ver : Z; m_name : name; m_group : Z }.
Record group := Gr { g_id : Z; g_ver : Z; g_name : name; g_disable : bool }.
Record nsp := Ns { n_id : Z; n_ver : Z; n_name : name }.

Record storage := St {
  by_id : list (Z * metric);        (* metricsByID *)
  by_name : list (name * metric);   (* metricsByName (values are the pointed-to structs) *)
  g_by_id : list (Z * group);
  g_by_name : list (name * group);
  g_ordered : list group;           (* groupsOrdered *)
  n_by_id : list (Z * nsp);
  n_by_name : list (name * nsp) }.

Definition zget {V} (k : Z) (m : list (Z * V)) : option V :=
  match find (fun p => fst p =? k) m with Some p => Some (snd p) | None => None end.
Definition zdel {V} (k : Z) (m : list (Z * V)) : list (Z * V) := filter (fun p => negb (fst p =? k)) m.
Definition zset {V} (k : Z) (v : V) (m : list (Z * V)) : list (Z * V) := (k, v) :: zdel k m.
Definition nget {V} (k : name) (m : list (name * V)) : option V :=
  match find (fun p => name_eqb (fst p) k) m with Some p => Some (snd p) | None => None end.
Definition ndel {V} (k : name) (m : list (name * V)) : list (name * V) := filter (fun p => negb (name_eqb (fst p) k)) m.
Definition nset {V} (k : name) (v : V) (m : list (name * V)) : list (name * V) := (k, v) :: ndel k m.

Definition n__default : name := [95;95;100;101;102;97;117;108;116].   (* "__default" *)
Definition n__builtin : name := [95;95;98;117;105;108;116;105;110].   (* "__builtin" *)
Definition n__host : name := [95;95;104;111;115;116].                  (* "__host" *)

(* MakeMetricsStorage *)
Definition init_storage : storage :=
  let gs := [Gr BuiltinGroupIDDefault 0 n__default false; Gr BuiltinGroupIDBuiltin 0 n__builtin false; Gr BuiltinGroupIDHost 0 n__host false] in
  let n := Ns BuiltinNamespaceIDDefault 0 n__default in
  St [] [] (map (fun g => (g_id g, g)) gs) (map (fun g => (g_name g, g)) gs) [] [(n_id n, n)] [(n_name n, n)].

(* calcGroupForMetricLocked *)
Fixpoint calc_group (ordered : list group) (nm : name) : Z :=
  match ordered with
  | [] => BuiltinGroupIDDefault
  | g :: r => if has_prefix nm (g_name g) then g_id g else calc_group r nm
  end.

(* The two recorded defects are switchable: [fixm] = metric index (guarded delete + deterministic rebuild),
   [fixg] = group and namespace name indexes (guarded delete). *)
Definition del_name_metric (fixm : bool) (id : Z) (nm : name) (m : list (name * metric)) : list (name * metric) :=
  if fixm then match nget nm m with
               | Some cur => if m_id cur =? id then ndel nm m else m
               | None => m
               end
  else ndel nm m.

Definition apply_metric (fixm : bool) (s : storage) (e : event) : storage :=
  let id := e_id e in
  let old := zget id (by_id s) in
  let bn := match old with
            | Some o => if name_eqb (m_name o) (e_name e) then by_name s else del_name_metric fixm id (m_name o) (by_name s)
            | None => by_name s
            end in
  let grp := match old with
             | Some o => if name_eqb (m_name o) (e_name e) then m_group o else calc_group (g_ordered s) (e_name e)
             | None => calc_group (g_ordered s) (e_name e)
             end in
  let v := Mt id (e_ver e) (e_name e) grp in
  St (zset id v (by_id s)) (nset (e_name e) v bn) (g_by_id s) (g_by_name s) (g_ordered s) (n_by_id s) (n_by_name s).

Definition del_name_group (fixg : bool) (id : Z) (nm : name) (m : list (name * group)) : list (name * group) :=
  if fixg then match nget nm m with
               | Some cur => if g_id cur =? id then ndel nm m else m
               | None => m
               end
  else ndel nm m.
Definition del_name_nsp (fixg : bool) (id : Z) (nm : name) (m : list (name * nsp)) : list (name * nsp) :=
  if fixg then match nget nm m with
               | Some cur => if n_id cur =? id then ndel nm m else m
               | None => m
               end
  else ndel nm m.

(* returns the new storage and whether changedGroups must be raised *)
Definition apply_group (fixg : bool) (s : storage) (e : event) : storage * bool :=
  let id := e_id e in
  let v := Gr id (e_ver e) (e_name e) (d_disable (e_data e)) in
  let old := zget id (g_by_id s) in
  let gn := match old with
            | Some o => if name_eqb (g_name o) (e_name e) then g_by_name s else del_name_group fixg id (g_name o) (g_by_name s)
            | None => g_by_name s
            end in
  let changed := match old with
                 | Some o => negb (name_eqb (g_name o) (e_name e)) || negb (Bool.eqb (g_disable o) (g_disable v))
                 | None => true
                 end in
  (St (by_id s) (by_name s) (zset id v (g_by_id s)) (nset (e_name e) v gn) (g_ordered s) (n_by_id s) (n_by_name s), changed).

Definition apply_nsp (fixg : bool) (s : storage) (e : event) : storage :=
  let id := e_id e in
  let v := Ns id (e_ver e) (e_name e) in
  let nn := match zget id (n_by_id s) with
            | Some o => if name_eqb (n_name o) (e_name e) then n_by_name s else del_name_nsp fixg id (n_name o) (n_by_name s)
            | None => n_by_name s
            end in
  St (by_id s) (by_name s) (g_by_id s) (g_by_name s) (g_ordered s) (zset id v (n_by_id s)) (nset (e_name e) v nn).

Definition apply_one (fixm fixg : bool) (sc : storage * bool) (e : event) : storage * bool :=
  let '(s, ch) := sc in
  if negb (parses e) then (s, ch)
  else if e_typ e =? MetricEvent then (apply_metric fixm s e, ch)
  else if e_typ e =? MetricsGroupEvent then let '(s', c) := apply_group fixg s e in (s', ch || c)
  else if e_typ e =? NamespaceEvent then (apply_nsp fixg s e, ch)
  else (s, ch).

(* groupsOrdered: g.ID > 0 && !g.Disable, sorted by name descending (insertion sort; ties by position) *)
Definition enabled_groups (s : storage) : list group :=
  filter (fun g => (0 <? g_id g) && negb (g_disable g)) (map snd (g_by_id s)).
Fixpoint ins_desc (g : group) (l : list group) : list group :=
  match l with
  | [] => [g]
  | h :: r => match name_cmp (g_name g) (g_name h) with Lt => h :: ins_desc g r | _ => g :: l end
  end.
Definition sort_desc (l : list group) : list group := fold_right ins_desc [] l.

Fixpoint sorted_desc (l : list group) : bool :=
  match l with
  | [] => true
  | a :: r => match r with [] => true | b :: _ => match name_cmp (g_name a) (g_name b) with Lt => false | _ => sorted_desc r end end
  end.
Definition group_eqb (a b : group) : bool :=
  (g_id a =? g_id b) && (g_ver a =? g_ver b) && name_eqb (g_name a) (g_name b) && Bool.eqb (g_disable a) (g_disable b).
Definition gmem (g : group) (l : list group) : bool := existsb (group_eqb g) l.

(* slices.SortFunc is not stable and its input comes from a Go map: with equal names the order is not
   determined.  [gord] = ids in the order the implementation produced (given only when names collide);
   it is used when it is a sorted arrangement of exactly the enabled groups. *)
Definition pick_order (enabled : list group) (gord : list Z) : list group :=
  let cand := flat_map (fun id => filter (fun g => g_id g =? id) enabled) gord in
  if negb (Nat.eqb (length gord) 0) && sorted_desc cand && forallb (fun g => gmem g cand) enabled && Nat.eqb (length cand) (length enabled)
  then cand else sort_desc enabled.

(* rebuild of metricsByName from metricsByID.  Go iterates a map: with two holders of a name the winner is
   not determined; [amb] = (name, id that won) for such names.  The repaired variant keeps the holder with the
   largest version. *)
Definition holders (nm : name) (ms : list metric) : list metric := filter (fun m => name_eqb (m_name m) nm) ms.
Fixpoint max_ver (ms : list metric) (best : metric) : metric :=
  match ms with [] => best | m :: r => max_ver r (if m_ver best <? m_ver m then m else best) end.
Definition winner (fixm : bool) (amb : list (name * Z)) (nm : name) (ms : list metric) (dflt : metric) : metric :=
  let hs := holders nm ms in
  if fixm then max_ver hs dflt
  else match nget nm amb with
       | Some id => match find (fun m => m_id m =? id) hs with Some m => m | None => dflt end
       | None => dflt
       end.

Definition rebuild (fixm : bool) (amb : list (name * Z)) (gord : list Z) (s : storage) : storage :=
  let ordered := pick_order (enabled_groups s) gord in
  let ms := map (fun p => let m := snd p in Mt (m_id m) (m_ver m) (m_name m) (calc_group ordered (m_name m))) (by_id s) in
  let bid := map (fun m => (m_id m, m)) ms in
  let bn := fold_right (fun m acc => match nget (m_name m) acc with Some _ => acc | None => (m_name m, winner fixm amb (m_name m) ms m) :: acc end) [] ms in
  St bid bn (g_by_id s) (g_by_name s) ordered (n_by_id s) (n_by_name s).

(* MetricsStorage.ApplyEvent(newEntries) *)
Definition apply_events (fixm fixg : bool) (amb : list (name * Z)) (gord : list Z) (s : storage) (es : list event) : storage :=
  let '(s', ch) := fold_left (apply_one fixm fixg) es (s, false) in
  if ch then rebuild fixm amb gord s' else s'.
