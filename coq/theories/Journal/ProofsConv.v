(* C20 — replicas of a journal converge: invariants of delivery, source edits and (truncated) reload. *)
From Coq Require Import ZArith List Bool Lia Sorted.
From SH Require Import Journal.Model Journal.Proofs.
Import ListNotations.
Open Scope Z_scope.

Definition vlt (a b : event) : Prop := e_ver a < e_ver b.

(* well-formed journal: entries strictly sorted by version, one per key, none above currentVersion *)
Definition wfj (j : journal) : Prop :=
  StronglySorted vlt (j_entries j) /\ NoDup (map keyof (j_entries j)) /\ Forall (fun e => e_ver e <= j_cur j) (j_entries j).

Lemma ss_snoc {A} (R : A -> A -> Prop) l x : StronglySorted R l -> Forall (fun y => R y x) l -> StronglySorted R (l ++ [x]).
Proof.
  induction l as [|a l IH]; simpl; intros S F; [constructor; constructor|].
  inversion S; subst. inversion F; subst. constructor; [apply IH; assumption|].
  apply Forall_app. split; [assumption|constructor; [assumption|constructor]].
Qed.

Lemma ss_filter {A} (R : A -> A -> Prop) p l : StronglySorted R l -> StronglySorted R (filter p l).
Proof.
  induction l as [|a l IH]; simpl; intro S; [constructor|]. inversion S; subst.
  destruct (p a); [constructor; [auto|]|auto]. rewrite Forall_forall in *. intros x I. apply filter_In in I as [I _]. auto.
Qed.

Lemma firstn_In {A} n : forall (l : list A) x, In x (firstn n l) -> In x l.
Proof. induction n as [|n IH]; intros [|a l] x; simpl; try tauto. intros [->|I]; [left; reflexivity|right; apply IH; exact I]. Qed.

Lemma ss_firstn {A} (R : A -> A -> Prop) n : forall l, StronglySorted R l -> StronglySorted R (firstn n l).
Proof.
  induction n as [|n IH]; intros [|a l] S; simpl; try constructor. inversion S; subst. auto.
  inversion S; subst. rewrite Forall_forall in *. intros x I. apply firstn_In in I. auto.
Qed.

Lemma nodup_firstn {A} n : forall (l : list A), NoDup l -> NoDup (firstn n l).
Proof.
  induction n as [|n IH]; intros [|a l] ND; simpl; try constructor. inversion ND; subst. intro I. apply firstn_In in I. tauto.
  inversion ND; subst. auto.
Qed.

(* two strictly sorted lists with the same elements are the same list *)
Lemma ss_same_elements : forall l1 l2, StronglySorted vlt l1 -> StronglySorted vlt l2 ->
  (forall x, In x l1 <-> In x l2) -> l1 = l2.
Proof.
  induction l1 as [|a l1 IH]; intros [|b l2] S1 S2 E.
  - reflexivity.
  - exfalso. apply (E b). left. reflexivity.
  - exfalso. apply (E a). left. reflexivity.
  - inversion S1; subst. inversion S2; subst. rewrite Forall_forall in *.
    assert (a = b).
    { destruct (proj1 (E a) (or_introl eq_refl)) as [->|Ia]; [reflexivity|].
      destruct (proj2 (E b) (or_introl eq_refl)) as [->|Ib]; [reflexivity|].
      specialize (H2 _ Ib). specialize (H4 _ Ia). unfold vlt in *. lia. }
    subst b. f_equal. apply IH; try assumption. intro x. split; intro I.
    + destruct (proj1 (E x) (or_intror I)) as [->|]; [|assumption]. specialize (H2 _ I). unfold vlt in H2. lia.
    + destruct (proj2 (E x) (or_intror I)) as [->|]; [|assumption]. specialize (H4 _ I). unfold vlt in H4. lia.
Qed.

Lemma last_in {A} (d : A) : forall l, l <> [] -> In (last l d) l.
Proof. induction l as [|a l IH]; [congruence|]. intros _. destruct l as [|b l']; [left; reflexivity|]. right. apply IH. discriminate. Qed.

Lemma ss_last_max d : forall l x, StronglySorted vlt l -> In x l -> e_ver x <= e_ver (last l d).
Proof.
  induction l as [|a l IH]; [intros ? _ []|]. intros x S [<-|I].
  - destruct l as [|b l']; [simpl; lia|]. inversion S as [|? ? Sr Sa]; subst. rewrite Forall_forall in Sa.
    assert (L : In (last (b :: l') d) (b :: l')) by (apply last_in; discriminate).
    specialize (Sa _ L). change (last (a :: b :: l') d) with (last (b :: l') d). unfold vlt in Sa. lia.
  - destruct l as [|b l']; [destruct I|]. inversion S as [|? ? Sr Sa]; subst.
    change (last (a :: b :: l') d) with (last (b :: l') d). apply IH; assumption.
Qed.

Section Conv.
  Variable H : event -> Z.

  Lemma add_event_spec j e j' : add_event H j e = Some j' ->
    j_cur j < e_ver e /\ j_entries j' = remove_key e (j_entries j) ++ [e] /\ j_cur j' = e_ver e /\
    j_loader j' = j_loader j /\ j_compact j' = j_compact j.
  Proof.
    unfold add_event. destruct (e_ver e <=? j_cur j) eqn:C; [discriminate|]. apply Z.leb_gt in C.
    intro E. inversion E; subst; simpl. tauto.
  Qed.

  Lemma add_event_total j e : j_cur j < e_ver e -> exists j', add_event H j e = Some j'.
  Proof. intro L. unfold add_event. destruct (e_ver e <=? j_cur j) eqn:C; [apply Z.leb_le in C; lia|]. eexists; reflexivity. Qed.

  Lemma add_event_wf j e j' : wfj j -> add_event H j e = Some j' -> wfj j'.
  Proof.
    intros (S & ND & F) A. apply add_event_spec in A as (L & E & C & _). unfold wfj. rewrite E, C. split; [|split].
    - apply ss_snoc; [apply ss_filter; exact S|]. rewrite Forall_forall in *. intros y I.
      apply remove_key_keys in I as [I _]. specialize (F _ I). unfold vlt. lia.
    - apply nodup_remove_add. exact ND.
    - apply Forall_app. split; [|constructor; [lia|constructor]]. rewrite Forall_forall in *. intros y I.
      apply remove_key_keys in I as [I _]. specialize (F _ I). lia.
  Qed.

  Definition batch_ok (j : journal) (es : list event) : Prop :=
    StronglySorted vlt es /\ NoDup (map keyof es) /\ Forall (fun e => j_cur j < e_ver e) es.

  (* a batch of fresh, increasing, key-distinct events is added without panic; what the journal holds afterwards *)
  Lemma add_events_spec : forall es j, wfj j -> batch_ok j es ->
    exists j', add_events H j es = Some j' /\ wfj j' /\ j_loader j' = j_loader j /\ j_compact j' = j_compact j /\
      (forall d, es <> [] -> j_cur j' = e_ver (last es d)) /\ (es = [] -> j' = j) /\
      (forall x, In x (j_entries j') <-> In x es \/ (In x (j_entries j) /\ ~ In (keyof x) (map keyof es))).
  Proof.
    induction es as [|e r IH]; intros j W (S & ND & F).
    - exists j. simpl. split; [reflexivity|]. split; [exact W|]. split; [reflexivity|]. split; [reflexivity|].
      split; [intros d N; congruence|]. split; [reflexivity|]. intro x. tauto.
    - inversion S as [|? ? Sr Se]; subst. inversion ND as [|? ? NDe NDr]; subst. inversion F as [|? ? Fe Fr]; subst.
      destruct (add_event_total j e Fe) as [j1 A]. pose proof (add_event_wf _ _ _ W A) as W1.
      pose proof (add_event_spec _ _ _ A) as (_ & E1 & C1 & L1 & K1).
      destruct (IH j1 W1) as (j' & A' & W' & L' & K' & C' & N' & I').
      { split; [assumption|split; [assumption|]]. rewrite Forall_forall in *. intros y Iy. rewrite C1. apply Se. exact Iy. }
      exists j'. simpl. rewrite A. split; [exact A'|]. split; [exact W'|]. split; [congruence|]. split; [congruence|]. split; [|split].
      + intros d _. destruct r as [|r0 rr]; [rewrite (N' eq_refl); simpl; exact C1|]. rewrite (C' d) by congruence. reflexivity.
      + discriminate.
      + intro x. rewrite I', E1, in_app_iff. simpl. rewrite remove_key_keys. split.
        * intros [Ir|[[[Ix Nk]|[<-|[]]] Nr]]; [left; right; exact Ir| |left; left; reflexivity].
          right. split; [exact Ix|]. intros [Ek|Ik]; [congruence|tauto].
        * intros [[<-|Ir]|[Ix Nk]]; [right; split; [right; left; reflexivity|exact NDe]|left; exact Ir|].
          right. split; [left; split; [exact Ix|]|]; intro; apply Nk; [left; congruence|right; assumption].
  Qed.

  (* ---- the replication invariant, relative to the top source S ---- *)
  Section Rep.
    Variable g : event -> event.    (* what the hops between S and this replica do to an event *)
    Definition preserves (f : event -> event) : Prop := forall e, keyof (f e) = keyof e /\ e_ver (f e) = e_ver e.

    (* R holds (through g) everything of S up to version c, and otherwise only older revisions of S's entities *)
    Definition RepAt (S R : journal) (c : Z) : Prop :=
      (forall e, In e (j_entries S) -> e_ver e <= c -> In (g e) (j_entries R)) /\
      (forall r, In r (j_entries R) -> exists e, In e (j_entries S) /\ keyof e = keyof r /\ (r = g e \/ e_ver r < e_ver e)) /\
      j_cur R <= c <= j_cur S.
    Definition Rep (S R : journal) : Prop := RepAt S R (j_loader R).
  End Rep.

  Lemma nodup_keys_inj l a b : NoDup (map keyof l) -> In a l -> In b l -> keyof a = keyof b -> a = b.
  Proof.
    induction l as [|x l IH]; simpl; intros ND Ia Ib E; [destruct Ia|]. inversion ND; subst.
    destruct Ia as [<-|Ia], Ib as [<-|Ib]; auto.
    - exfalso. apply H2. rewrite E. apply in_map. exact Ib.
    - exfalso. apply H2. rewrite <- E. apply in_map. exact Ia.
  Qed.

  (* when the cursor has reached the source's version the replica IS the source (through g), entry by entry *)
  Theorem rep_converged g S R : preserves g -> wfj S -> wfj R -> Rep g S R -> j_cur S <= j_loader R ->
    j_entries R = map g (j_entries S).
  Proof.
    intros P (SS & NDS & FS) (SR & NDR & FR) (A & B & C) L.
    apply ss_same_elements; [exact SR| |].
    - clear -SS P. induction (j_entries S) as [|a l IH]; simpl; [constructor|]. inversion SS; subst. constructor; [auto|].
      rewrite Forall_forall in *. intros x I. apply in_map_iff in I as [y [<- Iy]]. unfold vlt. rewrite (proj2 (P a)), (proj2 (P y)). apply H2. exact Iy.
    - intro x. rewrite in_map_iff. rewrite Forall_forall in FS. split.
      + intro I. destruct (B x I) as (e & Ie & K & [->|Lt]); [exists e; tauto|].
        pose proof (A e Ie ltac:(specialize (FS _ Ie); lia)) as Ig.
        assert (x = g e) by (apply (nodup_keys_inj _ _ _ NDR I Ig); rewrite (proj1 (P e)); congruence).
        subst x. rewrite (proj2 (P e)) in Lt. lia.
      + intros (e & <- & Ie). apply A; [exact Ie|]. specialize (FS _ Ie). lia.
  Qed.

  (* a source edit keeps every replica's invariant *)
  Lemma rep_source_edit g S R e S' : preserves g -> wfj S -> Rep g S R -> add_event H S e = Some S' -> Rep g S' R.
  Proof.
    intros P W (A & B & C) AE. apply add_event_spec in AE as (L & E & C' & _). split; [|split].
    - intros x I Lx. rewrite E, in_app_iff in I. destruct I as [I|[<-|[]]]; [apply remove_key_keys in I as [I _]; auto|]. lia.
    - intros r I. destruct (B r I) as (x & Ix & K & D).
      destruct (same_key e x) eqn:SK.
      + exists e. rewrite E, in_app_iff. split; [right; left; reflexivity|]. apply same_key_iff in SK. split; [congruence|].
        right. destruct W as (_ & _ & F). rewrite Forall_forall in F. specialize (F _ Ix).
        destruct D as [->|D]; [rewrite (proj2 (P x))|]; lia.
      + exists x. rewrite E, in_app_iff. split; [left; apply remove_key_keys; split; [exact Ix|apply same_key_false; exact SK]|tauto].
    - lia.
  Qed.

  Lemma firstn_filter_ver_in n c l x : StronglySorted vlt l ->
    In x (firstn n (filter (fun e => c <? e_ver e) l)) ->
    In x l /\ c < e_ver x /\ forall y, In y l -> c < e_ver y -> e_ver y <= e_ver x -> In y (firstn n (filter (fun e => c <? e_ver e) l)).
  Proof.
    intros S I. pose proof (firstn_In _ _ _ I) as I0. apply filter_In in I0 as [Il Cx]. apply Z.ltb_lt in Cx. split; [exact Il|split; [exact Cx|]].
    intros y Iy Cy Le. assert (If : In y (filter (fun e => c <? e_ver e) l)) by (apply filter_In; split; [exact Iy|apply Z.ltb_lt; exact Cy]).
    pose proof (ss_filter vlt (fun e => c <? e_ver e) l S) as SF. revert I If SF. generalize (filter (fun e => c <? e_ver e) l). clear -Le.
    induction n as [|n IH]; intros [|a f]; simpl; try tauto. intros [<-|I] [<-|If] SF; auto.
    - inversion SF; subst. rewrite Forall_forall in H2. specialize (H2 _ If). unfold vlt in H2. lia.
    - right. inversion SF; subst. apply IH; assumption.
  Qed.

  (* one delivery: upstream U (itself a replica of S through g1) answers with a prefix of its entries above the
     receiver's cursor, each passed through the hop function h; the receiver R (not compact) applies it *)
  Theorem rep_deliver g1 g2 h S U cU R n lk R' evs :
    preserves g1 -> preserves h -> (forall e, g2 e = h (g1 e)) ->
    wfj S -> wfj U -> wfj R -> RepAt g1 S U cU -> Rep g2 S R -> j_compact R = false ->
    apply_update H R (map h (firstn n (filter (fun e => j_loader R <? e_ver e) (j_entries U)))) lk = Some (R', evs) ->
    wfj R' /\ Rep g2 S R' /\ j_compact R' = false.
  Proof.
    intros P1 Ph G WS WU WR (AU & BU & CU) (AR & BR & CR) NC AP.
    set (c := j_loader R) in *. set (src0 := firstn n (filter (fun e => c <? e_ver e) (j_entries U))) in *.
    unfold apply_update in AP. destruct (map h src0) as [|s0 sr] eqn:Esrc.
    { inversion AP; subst. repeat split; try assumption; try apply WR; try lia. }
    rewrite NC in AP. rewrite <- Esrc in AP.
    assert (P2 : preserves g2) by (intro e; rewrite G; destruct (P1 e), (Ph (g1 e)); split; congruence).
    destruct WU as (SU & NDU & FU).
    assert (SS0 : StronglySorted vlt src0) by (apply ss_firstn, ss_filter; exact SU).
    assert (BOK : batch_ok R (map h src0)).
    { split; [|split].
      - clear -SS0 Ph. induction src0 as [|a l IH]; simpl; [constructor|]. inversion SS0; subst. constructor; [auto|].
        rewrite Forall_forall in *. intros x I. apply in_map_iff in I as [y [<- Iy]]. unfold vlt. rewrite (proj2 (Ph a)), (proj2 (Ph y)). apply H2, Iy.
      - assert (X : NoDup (map keyof src0)) by (unfold src0; rewrite <- firstn_map; apply nodup_firstn, nodup_filter, NDU).
        rewrite map_map. erewrite map_ext by (intro; apply (proj1 (Ph _))). exact X.
      - rewrite Forall_forall. intros x I. apply in_map_iff in I as [y [<- Iy]]. rewrite (proj2 (Ph y)).
        apply firstn_In, filter_In in Iy as [_ Cy]. apply Z.ltb_lt in Cy. lia. }
    destruct (add_events_spec _ R WR BOK) as (j' & A' & W' & L' & K' & C' & _ & I').
    rewrite A' in AP. inversion AP; subst R' evs; clear AP.
    assert (NE : map h src0 <> []) by (rewrite Esrc; discriminate).
    set (dflt := Ev 0 0 0 [] 0 0 0 0 0 (Dt false false false 0 0)) in *.
    assert (LastIn : In (last (map h src0) dflt) (map h src0)) by (apply last_in; exact NE).
    apply in_map_iff in LastIn as (ul & Eul & Iul). set (vl := e_ver (last (map h src0) dflt)) in *.
    assert (Evl : vl = e_ver ul) by (unfold vl; rewrite <- Eul; apply (proj2 (Ph ul))).
    destruct (firstn_filter_ver_in _ _ _ _ SU Iul) as (IulU & Cul & _).
    rewrite Forall_forall in FU.
    assert (MaxB : forall y, In y src0 -> e_ver y <= vl).
    { intros y Iy. unfold vl. rewrite <- (proj2 (Ph y)). apply ss_last_max; [apply BOK|apply in_map; exact Iy]. }
    split; [|split].
    - destruct W' as (X & Y & Z). simpl. split; [exact X|split; [exact Y|exact Z]].
    - simpl. split; [|split]; simpl.
      + (* everything of S up to the new cursor is present *)
        intros e Ie Le. apply I'. fold vl in Le.
        destruct (Z_le_gt_dec (e_ver e) c) as [Old|New].
        * right. split; [apply AR; assumption|]. intro K. apply in_map_iff in K as (x & Kx & Ix). apply in_map_iff in Ix as (u & <- & Iu).
          destruct (firstn_filter_ver_in _ _ _ _ SU Iu) as (IuU & Cu & _).
          destruct (BU u IuU) as (e0 & Ie0 & K0 & D0).
          assert (e0 = e).
          { destruct WS as (_ & NDS & _). apply (nodup_keys_inj _ _ _ NDS Ie0 Ie). rewrite K0. rewrite <- (proj1 (Ph u)). rewrite Kx. apply (proj1 (P2 e)). }
          subst e0. destruct D0 as [->|D0]; [rewrite (proj2 (P1 e)) in Cu|]; lia.
        * left. rewrite G. apply in_map. 
          assert (IgU : In (g1 e) (j_entries U)) by (apply AU; [exact Ie|]; specialize (FU _ IulU); lia).
          destruct (firstn_filter_ver_in _ _ _ _ SU Iul) as (_ & _ & Cl). apply Cl; [exact IgU| |]; rewrite (proj2 (P1 e)); lia.
      + intros r Ir. apply I' in Ir as [Ib|[Io _]]; [|apply BR; exact Io].
        apply in_map_iff in Ib as (u & <- & Iu). destruct (firstn_filter_ver_in _ _ _ _ SU Iu) as (IuU & _ & _).
        destruct (BU u IuU) as (e0 & Ie0 & K0 & D0). exists e0. split; [exact Ie0|]. split; [rewrite (proj1 (Ph u)); exact K0|].
        destruct D0 as [->|D0]; [left; symmetry; apply G|right; rewrite (proj2 (Ph u)); exact D0].
      + rewrite (C' dflt NE). fold vl. split; [lia|]. rewrite Evl. specialize (FU _ IulU). lia.
    - simpl. congruence.
  Qed.

  (* ---- save + reload of a possibly truncated file ---- *)
  Definition posj (j : journal) : Prop := 0 <= j_cur j /\ Forall (fun e => 0 < e_ver e) (j_entries j).

  Lemma add_event_pos j e j' : posj j -> add_event H j e = Some j' -> posj j'.
  Proof.
    intros (C & F) A. apply add_event_spec in A as (L & E & C' & _). split; [lia|]. rewrite E. apply Forall_app. split.
    - rewrite Forall_forall in *. intros x I. apply remove_key_keys in I as [I _]. auto.
    - constructor; [lia|constructor].
  Qed.

  Lemma ss_firstn_closed n : forall l x y, StronglySorted vlt l -> In x (firstn n l) -> In y l -> e_ver y <= e_ver x -> In y (firstn n l).
  Proof.
    induction n as [|n IH]; intros [|a l] x y S; simpl; try tauto. inversion S as [|? ? Sr Sa]; subst. rewrite Forall_forall in Sa.
    intros [<-|Ix] [<-|Iy] Le; auto.
    - specialize (Sa _ Iy). unfold vlt in Sa. lia.
    - right. eapply IH; eassumption.
  Qed.

  Theorem rep_reload g S R hdr chunks R' b :
    preserves g -> wfj R -> posj R -> Rep g S R ->
    (hdr = false -> fold_right Nat.add 0%nat chunks = 0%nat) ->
    load_journal H R hdr chunks = Some (R', b) ->
    wfj R' /\ posj R' /\ Rep g S R' /\ j_compact R' = j_compact R /\
    j_entries R' = firstn (fold_right Nat.add 0%nat chunks) (j_entries R).
  Proof.
    intros P (SR & NDR & FR) (CP & FP) (A & B & C) HD. unfold load_journal.
    set (n := fold_right Nat.add 0%nat chunks) in *. set (evs := firstn n (j_entries R)).
    assert (W0 : wfj (empty_journal (j_compact R))) by (split; [constructor|split; constructor]).
    assert (BOK : batch_ok (empty_journal (j_compact R)) evs).
    { split; [apply ss_firstn; exact SR|split]; [unfold evs; rewrite <- firstn_map; apply nodup_firstn; exact NDR|].
      rewrite Forall_forall in *. intros x I. apply firstn_In in I. simpl. auto. }
    destruct (add_events_spec _ _ W0 BOK) as (j' & A' & W' & L' & K' & C' & N' & I'). rewrite A'.
    intro E. inversion E; subst R' b; clear E. simpl.
    assert (EE : j_entries j' = evs).
    { apply ss_same_elements; [apply W'|apply BOK|]. intro x. rewrite I'. simpl. tauto. }
    set (dflt := Ev 0 0 0 [] 0 0 0 0 0 (Dt false false false 0 0)).
    assert (CUR : (evs = [] /\ j_cur j' = 0) \/ (evs <> [] /\ j_cur j' = e_ver (last evs dflt) /\ In (last evs dflt) evs)).
    { destruct evs as [|e0 r] eqn:Ev0; [left; split; [reflexivity|rewrite (N' eq_refl); reflexivity]|right].
      split; [discriminate|]. split; [apply C'; discriminate|apply last_in; discriminate]. }
    rewrite Forall_forall in FR, FP.
    assert (LE : j_cur j' <= j_cur R).
    { destruct CUR as [[_ ->]|(_ & -> & IL)]; [exact CP|]. apply FR. eapply firstn_In. exact IL. }
    assert (CLOSED : forall y, In y (j_entries R) -> e_ver y <= j_cur j' -> In y evs).
    { intros y Iy Ly. destruct CUR as [[_ E0]|(_ & E1 & IL)]; [specialize (FP _ Iy); lia|].
      eapply ss_firstn_closed; [exact SR|exact IL|exact Iy|lia]. }
    assert (POS : 0 <= j_cur j').
    { destruct CUR as [[_ ->]|(_ & -> & IL)]; [lia|]. apply firstn_In in IL. specialize (FP _ IL). lia. }
    split; [|split; [|split; [|split]]].
    - destruct W' as (X & Y & Z). split; [exact X|split; [exact Y|exact Z]].
    - split; simpl; [exact POS|]. rewrite EE. rewrite Forall_forall. intros x I. apply FP. eapply firstn_In. exact I.
    - split; [|split]; simpl.
      + intros e Ie Le. rewrite EE.
        destruct ((if hdr then j_cur R else 0) =? j_cur j') eqn:Q1; simpl in Le;
          [destruct (j_cur j' <=? (if hdr then j_loader R else 0)) eqn:Q2; simpl in Le|].
        * apply Z.eqb_eq in Q1. apply Z.leb_le in Q2. destruct hdr.
          -- pose proof (A e Ie Le) as Ig. apply CLOSED; [exact Ig|]. specialize (FR _ Ig). lia.
          -- pose proof (A e Ie ltac:(lia)) as Ig. specialize (FP _ Ig). rewrite (proj2 (P e)) in FP. lia.
        * pose proof (A e Ie ltac:(lia)) as Ig. apply CLOSED; [exact Ig|]. rewrite (proj2 (P e)). exact Le.
        * pose proof (A e Ie ltac:(lia)) as Ig. apply CLOSED; [exact Ig|]. rewrite (proj2 (P e)). exact Le.
      + intros r Ir. rewrite EE in Ir. apply B. eapply firstn_In. exact Ir.
      + destruct ((if hdr then j_cur R else 0) =? j_cur j') eqn:Q1; simpl;
          [destruct (j_cur j' <=? (if hdr then j_loader R else 0)) eqn:Q2; simpl|]; try lia.
        apply Z.leb_le in Q2. destruct hdr; lia.
    - exact K'.
    - exact EE.
  Qed.
End Conv.
